"""C09 - TCR Levenshtein metrics are the stated weighted sum over chains and CDR loops."""
import itertools
from mc.core import Space, HarnessError, raised
from mc import enum as E
from mc.refmodel import ref_wlev

ID = "C09"
RULE = ("anchor x comparison tables over a 9-row alphabet (3 alpha parts x 3 beta parts incl. an allele without CDR2 and empty CDR3s) are run "
        "through the six TcrLevenshtein classes with default weights and an all-distinct prime weight assignment; every entry is compared with "
        "sum chain_w*loop_w*weighted-Levenshtein(loop_i, loop_j) (own DP; CDR1/CDR2 from tidytcells); weight star, label star, pdist = condensed "
        "self-cdist, ValueError for non-tables, caller tables unmodified; non-trivial = some non-zero entry")
ASSUMPTIONS = ["tidytcells.tr.get_aa_sequence is the trusted data source for CDR1/CDR2 (property wording)",
               "the value at [i,j] may depend only on (row i, row j): all 81 ordered row pairs are covered, tables establish locality/order/label independence",
               "rapidfuzz cdist workers=-1 answered with one thread in the bulk spaces"]
REQUIRED_CLASSES = {"all": ["allele-without-cdr2", "empty-cdr3", "distinct-prime-weights", "permuted-index", "duplicated-index", "rejects-non-table", "free-running-threads", "cdr3-distance-beyond-bins", "table-of-thousands-of-rows", "same-concatenation-different-split", "delta-v-allele", "one-gene-several-alleles", "mixed-case-cdr3"]}
MIN_OUTCOMES = 10
SINGLE_THREAD_RAPIDFUZZ = True
TIER = "quick"

ALPHA = (("TRAV1-1*01", "CA"), ("TRAV5*01", "CAC"), ("TRAV40*01", ""), ("TRAV1-1*01", "C"), ("TRAV1-1*01", "CS"), ("TRDV1*01", "CA"),
         # 6..10: alleles of ONE gene whose germline CDR1 differ (TRAV12-2: DRGSQS / DRVSQS / DQGSQS) or whose CDR2 exists in one allele only (TRAV2)
         ("TRAV12-2*01", "CA"), ("TRAV12-2*03", "CA"), ("TRAV12-2*04", "CA"), ("TRAV2*01", "C"), ("TRAV2*02", "C"),
         # 11..12: CDR3 strings as given, whatever their case ("arbitrary CDR3 strings")
         ("TRAV1-1*01", "Ca"), ("TRAV1-1*01", "ca"))
BETA = (("TRBV2*01", "CS"), ("TRBV6-9*01", "CSS"), ("TRBV2*01", ""), ("TRBV2*01", "SC"), ("TRBV2*01", "C"), ("TRBV2*01", "CSC"),
        # 6..7: TRBV19 alleles with different CDR2 (SQIVND / SHIVND)
        ("TRBV19*01", "CS"), ("TRBV19*02", "CS"), ("TRBV2*01", "cS"))
ALLELE_SETS = (((6, 6), (7, 6), (8, 7), (6, 7), (7, 7)), ((9, 6), (10, 6), (9, 7)), ((0, 0), (11, 8), (12, 0), (0, 8), (12, 8)))
R = tuple(itertools.product(range(3), range(3)))
CLASSES = ("AlphaCdr3Levenshtein", "BetaCdr3Levenshtein", "Cdr3Levenshtein", "AlphaCdrLevenshtein", "BetaCdrLevenshtein", "CdrLevenshtein")
WNAMES = ("insertion_weight", "deletion_weight", "substitution_weight", "alpha_weight", "beta_weight", "cdr1_weight", "cdr2_weight", "cdr3_weight")
PRIMES = dict(zip(WNAMES, (2, 3, 5, 7, 11, 13, 17, 19)))
SCOPE = {  # class -> (chains, loops)
    "AlphaCdr3Levenshtein": ("A", (3,)), "BetaCdr3Levenshtein": ("B", (3,)), "Cdr3Levenshtein": ("AB", (3,)),
    "AlphaCdrLevenshtein": ("A", (1, 2, 3)), "BetaCdrLevenshtein": ("B", (1, 2, 3)), "CdrLevenshtein": ("AB", (1, 2, 3)),
}
_LOOPS = {}


def loops(v):
    from tidytcells import tr
    if v not in _LOOPS:
        d = tr.get_aa_sequence(v)
        _LOOPS[v] = (d.get("CDR1-IMGT") or "", d.get("CDR2-IMGT") or "")
    return _LOOPS[v]


def accepted(cls):
    import inspect
    import pyrepseq.metric.tcr_metric as T
    return [p for p in inspect.signature(getattr(T, cls).__init__).parameters if p != "self"]


def make(cls, weights):
    import pyrepseq.metric.tcr_metric as T
    kw = {k: v for k, v in weights.items() if k in accepted(cls)}
    return getattr(T, cls)(**kw), kw


def ref_value(cls, kw, ra, rb):
    w = dict(zip(WNAMES, (1,) * 8))
    w.update(kw)
    chains, lps = SCOPE[cls]
    tot = 0
    for ch in chains:
        (va, c3a) = ALPHA[ra[0]] if ch == "A" else BETA[ra[1]]
        (vb, c3b) = ALPHA[rb[0]] if ch == "A" else BETA[rb[1]]
        cw = w["alpha_weight"] if ch == "A" else w["beta_weight"]
        for lp in lps:
            if lp == 3:
                x, y = c3a, c3b
            else:
                x, y = loops(va)[lp - 1], loops(vb)[lp - 1]
            lw = w["cdr%d_weight" % lp]
            tot += cw * lw * ref_wlev(x, y, w["insertion_weight"], w["deletion_weight"], w["substitution_weight"])
    return tot


def table(rows, index="default", extra=False):
    import pandas as pd
    d = {"TRAV": [ALPHA[a][0] for a, b in rows], "CDR3A": [ALPHA[a][1] for a, b in rows],
         "TRBV": [BETA[b][0] for a, b in rows], "CDR3B": [BETA[b][1] for a, b in rows]}
    if extra:
        d["Epitope"] = ["X"] * len(rows)
        # a caller's table may carry any further columns, also ones named like the loops the metric derives from the V allele
        for c in ("CDR1A", "CDR2A", "CDR1B", "CDR2B"):
            d[c] = ["WWWW"] * len(rows)
    df = pd.DataFrame(d)
    n = len(rows)
    if index == "shifted":
        df.index = range(10, 10 + n)
    elif index == "permuted":
        df.index = [(i + 1) % n for i in range(n)]
    elif index == "duplicated":
        df.index = [0] * n
    elif index == "string":
        df.index = ["r%d" % (n - i) for i in range(n)]
    return df


def spaces(tier):
    q = tier == "quick"

    def gen_tables():
        anchors = list(E.lists(range(9), 2))
        comps = list(E.lists(range(9), 2 if q else 3))
        for a in anchors:
            yield ("ac", a, 2 if q else 3)

    def gen_wstar():
        for ra in range(9):
            for rc in range(9):
                yield ("wstar", ra, rc)

    def gen_label():
        for ci, rows in enumerate(E.lists(range(9), 3, minlen=2)):
            if q and len(rows) == 3 and ci % 9 != 4:
                continue
            yield ("label", rows)

    def gen_reject():
        yield ("reject",)
        yield ("free",)
        for n in (24, 25, 26, 36, 51, 71, 80):
            yield ("longcdr3", n)
        yield ("split",)
        for si in range(len(ALLELE_SETS)):
            for rows in E.lists(range(len(ALLELE_SETS[si])), 3, minlen=2):
                yield ("alleles", si, rows)
        for N in (257, 1025, 3001) + (() if q else (10001,)):
            yield ("bigtable", N)

    return [
        Space("rejections-and-free-threads", gen_reject, "non-table / no-TCR-column inputs must raise ValueError; free-running rapidfuzz threads on the 9x9 row table; CDR3s of 24..80 residues (distances beyond every class's bins)", per_case=True),
        Space("anchor-x-comparison-tables", gen_tables, "anchors in Lists(R,2) x comparisons in Lists(R,1) + every 4th of Lists(R,2)\\Lists(R,1) (quick) / Lists(R,3) (thorough) x 6 classes x {default, distinct-prime} weights; one case = one anchor table against every comparison table", shards=45),
        Space("weight-star", gen_wstar, "81 one-row x one-row tables: each of the 8 weights in {1,2,3} alone and every pair of weights in {1,2}^2; one case = one (anchor row, comparison row)"),
        Space("label-star", gen_label, "all 2-row and (quick: every 9th; thorough: all) 3-row tables x index in {default, shifted, permuted, duplicated, string} x extra column; pdist == condensed upper triangle", shards=32),
    ]


def _cmp(acc, cls, kw, arows, crows, m, A, C, key, case):
    snapA, snapC = A.copy(deep=True), C.copy(deep=True)
    colsA, colsC = list(A.columns), list(C.columns)
    r = acc.call(m.calc_cdist_matrix, A, C)
    exp = [[ref_value(cls, kw, R[a], R[c]) for c in crows] for a in arows]
    if raised(r) or r.shape != (len(arows), len(crows)) or r.tolist() != exp:
        acc.fail("%s/%s/%s" % (cls, key, "raised-" + r.type if raised(r) else "value"), case, exp, r if raised(r) else r.tolist(), note=str(kw))
        return False
    if not A.equals(snapA) or not C.equals(snapC) or list(A.columns) != colsA or list(C.columns) != colsC:
        acc.fail("%s/caller-table-modified" % cls, case, colsA, list(A.columns))
        return False
    acc.ok((cls, tuple(sorted(kw.items())), tuple(map(tuple, exp))), nontrivial=any(any(x) for x in exp))
    return True


def check_case(case, acc):
    import numpy as np
    import pandas as pd
    import scipy.spatial.distance as ssd
    kind = case[0]
    if kind == "ac":
        _, arows, m_ = case
        A = table([R[i] for i in arows])
        if any(R[i][0] == 2 for i in arows):
            acc.cls("allele-without-cdr2")
        if any(R[i][0] == 2 or R[i][1] == 2 for i in arows):
            acc.cls("empty-cdr3")
        metrics = []
        for cls in CLASSES:
            for wname, weights in (("default", {}), ("primes", PRIMES)):
                m, kw = make(cls, weights)
                metrics.append((cls, wname, m, kw))
        for ci, crows in enumerate(E.lists(range(9), m_)):
            if TIER == "quick" and len(crows) == 2 and ci % 4 != 1:
                continue       # quick tier: every one-row comparison table, every 4th two-row one (stated in the space bounds)
            C = table([R[i] for i in crows])
            for cls, wname, m, kw in metrics:
                if wname == "primes":
                    acc.cls("distinct-prime-weights")
                if not _cmp(acc, cls, kw, arows, crows, m, A, C, "weights-" + wname, ("ac1", arows, crows, cls, wname)):
                    return
            # additivity: Cdr3 = alpha_weight*AlphaCdr3 + beta_weight*BetaCdr3 (same for Cdr) is implied by the oracle; checked explicitly once per pair
            for full, pa, pb in (("Cdr3Levenshtein", "AlphaCdr3Levenshtein", "BetaCdr3Levenshtein"), ("CdrLevenshtein", "AlphaCdrLevenshtein", "BetaCdrLevenshtein")):
                mf, kwf = make(full, PRIMES)
                ma, _ = make(pa, {k: v for k, v in PRIMES.items() if "alpha" not in k and "beta" not in k})
                mb, _ = make(pb, {k: v for k, v in PRIMES.items() if "alpha" not in k and "beta" not in k})
                rf, ra, rb = (acc.call(x.calc_cdist_matrix, A, C) for x in (mf, ma, mb))
                if raised(rf) or raised(ra) or raised(rb) or (rf != PRIMES["alpha_weight"] * ra + PRIMES["beta_weight"] * rb).any():
                    acc.fail("%s/additivity" % full, ("ac1", arows, crows, full, "primes"), "alpha_w*Alpha + beta_w*Beta", [str(rf), str(ra), str(rb)])
                    return
                acc.ok()
    elif kind == "ac1":
        _, arows, crows, cls, wname = case
        m, kw = make(cls, PRIMES if wname == "primes" else {})
        _cmp(acc, cls, kw, arows, crows, m, table([R[i] for i in arows]), table([R[i] for i in crows]), "weights-" + wname, case)
    elif kind == "wstar":
        ra = case[1]
        A = table([R[ra]])
        for rc in (case[2],):
            C = table([R[rc]])
            for cls in CLASSES:
                acc_names = accepted(cls)
                combos = [{n: v} for n in acc_names for v in (2, 3)]
                if cls in ("AlphaCdr3Levenshtein", "BetaCdrLevenshtein"):      # the edit-weight scorer is shared by all six classes
                    combos += [dict(zip(WNAMES[:3], t)) for t in itertools.product((1, 2, 3), repeat=3) if len(set(t)) > 1 or t[0] > 1]
                    combos += [dict(zip(WNAMES[:3], t)) for t in ((4, 4, 7), (3, 3, 5), (5, 5, 6), (2, 2, 4))]
                    # unequal insertion / deletion weights with a substitution dearer than, equal to and just below their sum (an indel-only optimum)
                    combos += [dict(zip(WNAMES[:3], t)) for t in ((1, 2, 4), (2, 1, 4), (1, 3, 5), (3, 1, 5), (2, 3, 6), (3, 2, 6), (1, 2, 5), (2, 1, 5), (1, 4, 6), (4, 1, 5), (1, 3, 4), (3, 1, 4))]
                combos += [{n1: v1, n2: v2} for n1, n2 in itertools.combinations(acc_names, 2) for v1 in (1, 2) for v2 in (1, 2) if (v1, v2) != (1, 1)]
                # large chain x loop multipliers: sums beyond 2^24 stay exact integers
                big = {n: 4099 for n in acc_names if n in ("alpha_weight", "beta_weight", "cdr3_weight")}
                if len(big) >= 2:
                    combos.append(big)
                    combos.append(dict(big, substitution_weight=3, insertion_weight=2, deletion_weight=2))
                    acc.cls("weighted-sum-beyond-2^24")
                for kw in combos:
                    m, kw2 = make(cls, kw)
                    if not _cmp(acc, cls, kw2, (ra,), (rc,), m, A, C, "weight-star", ("w1", ra, rc, cls, tuple(sorted(kw.items())))):
                        return
    elif kind == "w1":
        _, ra, rc, cls, kwt = case
        m, kw2 = make(cls, dict(kwt))
        _cmp(acc, cls, kw2, (ra,), (rc,), m, table([R[ra]]), table([R[rc]]), "weight-star", case)
    elif kind == "label":
        rows = case[1]
        n = len(rows)
        base = {}
        for index in ("default", "shifted", "permuted", "duplicated", "string"):
            if index == "permuted":
                acc.cls("permuted-index")
            if index == "duplicated":
                acc.cls("duplicated-index")
            for extra in (False, True):
                A = table([R[i] for i in rows], index, extra)
                C = table([R[i] for i in rows[::-1]], "default" if index == "default" else "shifted")
                for cls in CLASSES:
                    m, kw = make(cls, PRIMES)
                    if not _cmp(acc, cls, kw, rows, rows[::-1], m, A, C, "index-" + index, ("label1", rows, index, extra, cls)):
                        return
                    v = acc.call(m.calc_pdist_vector, A)
                    exp = [ref_value(cls, kw, R[rows[i]], R[rows[j]]) for i in range(n) for j in range(i + 1, n)]
                    if raised(v) or v.tolist() != exp:
                        acc.fail("%s/pdist/index-%s" % (cls, index), ("label1", rows, index, extra, cls), exp, v if raised(v) else v.tolist())
                        return
                    acc.ok()
                    if index in ("default", "permuted") and not extra:
                        # the very same table object as anchors and comparisons
                        if not _cmp(acc, cls, kw, rows, rows, m, A, A, "same-object", ("label1", rows, index, extra, cls)):
                            return
    elif kind == "label1":
        _, rows, index, extra, cls = case
        m, kw = make(cls, PRIMES)
        A = table([R[i] for i in rows], index, extra)
        C = table([R[i] for i in rows[::-1]], "default" if index == "default" else "shifted")
        if _cmp(acc, cls, kw, rows, rows[::-1], m, A, C, "index-" + index, case):
            v = acc.call(m.calc_pdist_vector, A)
            n = len(rows)
            exp = [ref_value(cls, kw, R[rows[i]], R[rows[j]]) for i in range(n) for j in range(i + 1, n)]
            if raised(v) or v.tolist() != exp:
                acc.fail("%s/pdist/index-%s" % (cls, index), case, exp, v if raised(v) else v.tolist())
    elif kind == "reject":
        good = table([R[0], R[4]])
        bads = {"list": ["CA", "CS"], "none": None, "ndarray": np.array([["a"]]), "no-tcr-columns": pd.DataFrame({"x": [1, 2]}),
                "series": pd.Series(["CA"]), "dict": {"CDR3A": ["CA"]}, "empty-frame": pd.DataFrame()}
        for cls in CLASSES:
            m, _ = make(cls, {})
            for bname, bad in bads.items():
                acc.cls("rejects-non-table")
                for which, args in (("anchors", (bad, good)), ("comparisons", (good, bad))):
                    r = acc.call(m.calc_cdist_matrix, *args)
                    if not (raised(r) and r.type == "ValueError"):
                        acc.fail("%s/non-table-not-rejected/%s" % (cls, bname), case, "ValueError", r if raised(r) else "returned a result", note=which)
                        return
                    acc.ok((cls, bname, which))
                r = acc.call(m.calc_pdist_vector, bad)
                if not (raised(r) and r.type == "ValueError"):
                    acc.fail("%s/non-table-not-rejected/%s" % (cls, bname), case, "ValueError", r if raised(r) else "returned a result", note="pdist")
                    return
                acc.ok()
    elif kind == "longcdr3":
        # CDR3 distances beyond 25 / 35 / 50 / 70 (the classes' plotting bins): values must stay exact sums
        n = case[1]
        acc.cls("cdr3-distance-beyond-bins")
        import pandas as pd
        A = pd.DataFrame({"TRAV": ["TRAV1-1*01", "TRAV5*01", "TRAV1-1*01"], "CDR3A": ["C" + "A" * (n - 1), "", "C" + "S" * (n - 2) + "F"],
                          "TRBV": ["TRBV2*01", "TRBV2*01", "TRBV6-9*01"], "CDR3B": ["", "C" + "Q" * (n - 1), "CAS"]})
        rowsA = [(A.TRAV[i], A.CDR3A[i], A.TRBV[i], A.CDR3B[i]) for i in range(3)]
        for cls in CLASSES:
            for wname, weights in (("default", {}), ("primes", PRIMES)):
                m, kw = make(cls, weights)
                w = dict(zip(WNAMES, (1,) * 8)); w.update(kw)
                chains, lps = SCOPE[cls]

                def val(r1, r2):
                    tot = 0
                    for ch in chains:
                        v1, c1 = (r1[0], r1[1]) if ch == "A" else (r1[2], r1[3])
                        v2, c2 = (r2[0], r2[1]) if ch == "A" else (r2[2], r2[3])
                        for lp in lps:
                            x, y = (c1, c2) if lp == 3 else (loops(v1)[lp - 1], loops(v2)[lp - 1])
                            tot += (w["alpha_weight"] if ch == "A" else w["beta_weight"]) * w["cdr%d_weight" % lp] * ref_wlev(x, y, w["insertion_weight"], w["deletion_weight"], w["substitution_weight"])
                    return tot
                exp = [[val(a, b) for b in rowsA] for a in rowsA]
                r = acc.call(m.calc_cdist_matrix, A, A.copy())
                if raised(r) or r.tolist() != exp:
                    acc.fail("%s/long-cdr3/%s" % (cls, "raised-" + r.type if raised(r) else "value"), case, exp, r if raised(r) else r.tolist(), note=wname)
                    return
                acc.ok((cls, wname, n, exp[0][1]), nontrivial=True)
    elif kind == "split":
        # distinct rows whose in-scope loops concatenate to the same text with another split (C|SC vs CS|C, ""|C vs C|""), rows that
        # agree on the in-scope loops but differ elsewhere, exact duplicates - in every order of a 4-row table
        acc.cls("same-concatenation-different-split")
        S = [(3, 3), (4, 4), (3, 5), (2, 4), (3, 2), (4, 3), (3, 3), (5, 0)]      # indices into the extended ALPHA / BETA alphabets; (5, .) is a delta V allele used by an alpha chain
        tables_ = list(itertools.permutations(range(len(S)), 3)) + [r_ for r_ in itertools.permutations(range(len(S)), 4) if r_[0] < r_[3] and sum(r_) % 4 == 0]
        for rows in tables_:
            if 7 in rows:
                acc.cls("delta-v-allele")
            A = table([S[i] for i in rows], "shifted")
            for cls in ("Cdr3Levenshtein", "CdrLevenshtein", "AlphaCdr3Levenshtein"):
                m, kw = make(cls, PRIMES)
                r = acc.call(m.calc_cdist_matrix, A, A.iloc[::-1])
                exp = [[ref_value(cls, kw, S[a], S[b]) for b in rows[::-1]] for a in rows]
                v = acc.call(m.calc_pdist_vector, A)
                expv = [ref_value(cls, kw, S[rows[i]], S[rows[j]]) for i in range(len(rows)) for j in range(i + 1, len(rows))]
                if raised(r) or r.tolist() != exp or raised(v) or v.tolist() != expv:
                    acc.fail("%s/rows-with-equal-concatenation-or-partial-duplicates" % cls, ("split1", rows, cls), exp, r if raised(r) else r.tolist())
                    return
                acc.ok()
    elif kind == "alleles":
        # every row of the table carries the same V *gene* but not the same allele; alleles of one gene may have different germline loops
        _, si, rows = case
        S = ALLELE_SETS[si]
        acc.cls("one-gene-several-alleles")
        if any(not loops(ALPHA[S[i][0]][0])[1] for i in rows):
            acc.cls("allele-without-cdr2")
        A = table([S[i] for i in rows], "shifted")
        if si == 2:
            acc.cls("mixed-case-cdr3")
        for cls in ("AlphaCdrLevenshtein", "BetaCdrLevenshtein", "CdrLevenshtein") + (("Cdr3Levenshtein",) if si == 2 else ()):
            m, kw = make(cls, PRIMES)
            r = acc.call(m.calc_cdist_matrix, A, A.iloc[::-1])
            exp = [[ref_value(cls, kw, S[a], S[b]) for b in rows[::-1]] for a in rows]
            v = acc.call(m.calc_pdist_vector, A)
            expv = [ref_value(cls, kw, S[rows[i]], S[rows[j]]) for i in range(len(rows)) for j in range(i + 1, len(rows))]
            if raised(r) or r.tolist() != exp or raised(v) or v.tolist() != expv:
                acc.fail("%s/alleles-of-one-gene" % cls, case, exp, r if raised(r) else r.tolist())
                return
            acc.ok((cls, str(exp)), nontrivial=any(any(x) for x in exp))
    elif kind == "split1":
        _, rows, cls = case
        S = [(3, 3), (4, 4), (3, 5), (2, 4), (3, 2), (4, 3), (3, 3), (5, 0)]
        A = table([S[i] for i in rows], "shifted")
        m, kw = make(cls, PRIMES)
        r = acc.call(m.calc_cdist_matrix, A, A.iloc[::-1])
        exp = [[ref_value(cls, kw, S[a], S[b]) for b in rows[::-1]] for a in rows]
        if raised(r) or r.tolist() != exp:
            acc.fail("%s/rows-with-equal-concatenation-or-partial-duplicates" % cls, case, exp, r if raised(r) else r.tolist())
        else:
            acc.ok()
    elif kind == "bigtable":
        # tables of a few thousand rows (rows drawn from the 9-row alphabet, so every entry is one of 81 known values)
        N = case[1]
        acc.cls("table-of-thousands-of-rows")
        rows = [(i * 7 + (i // 9) * 4) % 9 for i in range(N)]
        A = table([R[i] for i in rows], "shifted")
        # the V-gene look-up costs ~1 ms per row and call: all-CDR classes only on the smaller tables
        for cls in (("CdrLevenshtein", "AlphaCdr3Levenshtein", "BetaCdrLevenshtein") if N <= 300 else ("AlphaCdr3Levenshtein", "Cdr3Levenshtein", "BetaCdr3Levenshtein")):
            m, kw = make(cls, PRIMES)
            val = {(a, b): ref_value(cls, kw, R[a], R[b]) for a in range(9) for b in range(9)}
            v = acc.call(m.calc_pdist_vector, A)
            if raised(v) or v.shape != (N * (N - 1) // 2,):
                acc.fail("%s/pdist/big-table/%s" % (cls, "raised" if raised(v) else "shape"), case, N * (N - 1) // 2, v if raised(v) else v.shape)
                return
            import numpy as np
            ra = np.array(rows)
            iu = np.triu_indices(N, 1)
            lut = np.array([[val[(a, b)] for b in range(9)] for a in range(9)])
            exp = lut[ra[iu[0]], ra[iu[1]]]
            if not np.array_equal(np.asarray(v), exp):
                k = int(np.flatnonzero(np.asarray(v) != exp)[0])
                acc.fail("%s/pdist/big-table/value" % cls, case, int(exp[k]), int(v[k]), note="condensed index %d = rows (%d, %d)" % (k, iu[0][k], iu[1][k]))
                return
            sub = A.iloc[: min(N, 300)]
            c = acc.call(m.calc_cdist_matrix, A, sub)
            expc = lut[ra[:, None], ra[None, : len(sub)]]
            if raised(c) or not np.array_equal(np.asarray(c), expc):
                acc.fail("%s/cdist/big-table/value" % cls, case, "N x 300 block of known values", c if raised(c) else "differs")
                return
            acc.ok((cls, N, int(exp.sum())), nontrivial=True)
    elif kind == "free":
        from mc.seams import free_threads
        acc.cls("free-running-threads")
        A = table(list(R))
        with free_threads():
            for cls in CLASSES:
                m, kw = make(cls, PRIMES)
                if not _cmp(acc, cls, kw, tuple(range(9)), tuple(range(9)), m, A, A.copy(), "free-threads", case):
                    return
    else:
        raise HarnessError("unknown case %r" % (case,))
