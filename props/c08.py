"""C08 - string metrics return true (weighted) edit distances in SciPy layout."""
import itertools
from mc.core import Space, HarnessError, raised
from mc import enum as E
from mc.refmodel import ref_lev, ref_wlev

ID = "C08"
RULE = ("cdist(U,U) of a whole universe in one call for every weight triple of the bound is compared entry by entry with an own directional "
        "weighted Wagner-Fischer; every list up to length 5 over U(AB,2) checks the condensed index formula m*i+j-(i+2)(i+1)/2 and the "
        "squareform round trip with asymmetric weights; a boundary family of long strings checks for wrap-around; the functional "
        "pdist/cdist run with a metric that encodes both arguments; non-trivial = at least one non-zero distance")
ASSUMPTIONS = ["long strings are covered as a boundary family (lengths 254..400 x 3 shapes), not all strings of that length",
               "weights*length kept below 2^24 (float32 exactness of the generic scorer path is not relied on above that)",
               "rapidfuzz cdist workers=-1 answered with one thread in the bulk spaces; free-running-threads space uses the untouched function"]
REQUIRED_CLASSES = {"all": ["asymmetric-ins-del", "long-string>255", "condensed-layout", "kwargs-forwarded", "free-running-threads", "several-metric-objects-alive", "falsy-metric-object", "extreme-aspect-ratio", "none-and-falsy-option-values", "clone-dominated-collection", "trailing-nul", "every-collection-size"]}
MIN_OUTCOMES = 10
SINGLE_THREAD_RAPIDFUZZ = True

EXTRA_W = ((2, 3, 10), (3, 2, 10), (1, 1, 3), (7, 11, 13),
           # equal insertion and deletion weights k >= 2 with a substitution no cheaper than 2k (an indel-only optimum scaled by k), and just below
           (2, 2, 4), (2, 2, 5), (3, 3, 7), (3, 3, 6), (2, 2, 3), (4, 4, 8), (5, 5, 9))
LONG = (254, 255, 256, 257, 300, 400)


# two distinct strings repeated in every interleaving of 9 (clone-dominated collections); one pair differs by a trailing NUL only
CLONE_PAIRS = (("CASS", "CASSL"), ("CASS\x00", "CASS"), ("AB", "B"), ("CASSL\x00", "CASS"))


def triples(tier):
    t = list(itertools.product((1, 2, 3), repeat=3))
    return t + [w for w in EXTRA_W if w not in t]


def spaces(tier):
    q = tier == "quick"

    def gen_cdist():
        alpha, L = ("AB", 5) if q else ("ABC", 6)
        for w in triples(tier):
            yield ("cdist", alpha, L, w)
        yield ("cdist", "AB", 6 if q else 8, (1, 1, 1))
        yield ("cdist", "AB", 6 if q else 8, (1, 2, 3))
        if not q:
            yield ("cdist", "ABCD", 4, (2, 3, 5))
            yield ("cdist", "ABCD", 4, (5, 3, 2))
        yield ("cdist-lev", alpha, L)

    def gen_layout():
        U = E.universe("AB", 2)
        for X in E.lists(U, 4 if q else 5):
            yield ("layout", X)

    def gen_long():
        for n in LONG:
            for shape in ("xy", "x-empty", "x-xy", "self"):
                for w in ((1, 1, 1), (1, 2, 3), (3, 2, 1), (300, 200, 500), (7, 11, 13)):
                    yield ("long", n, shape, w)

    def gen_func():
        U = E.universe("AB", 2)
        for X in E.lists(U, 4 if q else 5):
            yield ("func", X)

    def gen_aspect():
        for na, nb in ((1, 70), (2, 130), (1, 300), (70, 1), (130, 2), (3, 200), (2049, 2048), (1025, 4096), (4097, 1024), (2048, 2049)):
            for w in ((1, 3, 2), (1, 1, 1), (2, 1, 3)):
                yield ("aspect", na, nb, w)

    def gen_free():
        for w in ((1, 1, 1), (1, 2, 3), (2, 1, 3)):
            yield ("free", w)

    def gen_sizes():
        for m in range(2, 1031 if q else 2061):
            yield ("size", m)

    def gen_clones():
        for pi in range(len(CLONE_PAIRS)):
            for w in ((1, 2, 3), (3, 1, 2), (1, 1, 1)):
                yield ("clones", pi, w)

    return [
        Space("cdist-of-universe", gen_cdist, "cdist(U,U) in one call: U(AB,5) quick / U(ABC,6) thorough x 27 weight triples in {1,2,3}^3 + %s; U(AB,6|8) x {(1,1,1),(1,2,3)}; Levenshtein class" % (EXTRA_W,), per_case=True),
        Space("condensed-layout-all-lists", gen_layout, "Lists(U(AB,2),4|5) x weights {(1,1,1),(1,2,3),(3,1,2)}: every condensed index, squareform round trip, pdist == upper triangle of cdist", shards=64),
        Space("long-string-boundary-family", gen_long, "lengths %s x shapes {x^n vs y^n, x^n vs '', x^n vs x^(n-1)y, x^n vs x^n} x 3 weight triples" % (LONG,)),
        Space("functional-pdist-cdist", gen_func, "Lists(U(AB,2),4|5) with a metric encoding (a,b) and a forwarded keyword; default metric"),
        Space("extreme-aspect-ratios", gen_aspect, "cdist of 1-3 anchors against 70-300 comparisons (and the transposed shapes) x 3 weight triples; matrices of about 2^22 entries (2049x2048, 1025x4096, 4097x1024, 2048x2049) with asymmetric weights", per_case=True),
        Space("clone-dominated-collections", gen_clones, "every sequence of length 9 over two distinct strings (4 pairs, one differing by a trailing NUL only) x 3 weight triples: pdist, cdist against a 4-element comparison list", per_case=True),
        Space("every-collection-size", gen_sizes, "pdist of EVERY collection size m = 2..1030 (thorough ..2060) of homopolymers A^((5i) mod 13): the whole condensed vector of WeightedLevenshtein(1,2,3), Levenshtein and (m <= 300) the functional pdist against a 13x13 table computed by the reference model (block / chunk thresholds at any size show here)", shards=64),
        Space("free-running-rapidfuzz-threads", gen_free, "cdist(U(AB,4),U(AB,4)) x 3 weight triples with rapidfuzz's own thread pool untouched", per_case=True),
    ]


def mk(w):
    from pyrepseq.metric import Levenshtein, WeightedLevenshtein
    return WeightedLevenshtein(*w)


def check_case(case, acc):
    import numpy as np
    import scipy.spatial.distance as ssd
    import pyrepseq
    from pyrepseq.metric import Levenshtein, WeightedLevenshtein
    kind = case[0]
    if kind in ("cdist", "cdist-lev", "free"):
        if kind == "free":
            from mc.seams import free_threads
            U = E.universe("AB", 4)
            w = case[1]
            acc.cls("free-running-threads")
            with free_threads():
                r = acc.call(mk(w).calc_cdist_matrix, U, U)
                rp = acc.call(mk(w).calc_pdist_vector, U)
        else:
            U = E.universe(case[1], case[2])
            w = case[3] if kind == "cdist" else (1, 1, 1)
            m = mk(w) if kind == "cdist" else Levenshtein()
            r = acc.call(m.calc_cdist_matrix, U, U)
            rp = acc.call(m.calc_pdist_vector, U)
        if w[0] != w[1]:
            acc.cls("asymmetric-ins-del")
        if raised(r) or raised(rp):
            acc.fail("cdist/raised", case, "matrix", r if raised(r) else rp)
            return
        n = len(U)
        if r.shape != (n, n):
            acc.fail("cdist/shape", case, (n, n), r.shape)
            return
        acc.extra["entries_decided"] += n * n
        R = r.tolist()
        for i in range(n):
            for j in range(n):
                e = ref_wlev(U[i], U[j], *w)
                if R[i][j] != e:
                    sub = ("pair", U[i], U[j], w)
                    tr = "transposed" if R[i][j] == ref_wlev(U[j], U[i], *w) else "value"
                    acc.fail("WeightedLevenshtein/cdist/%s" % tr, sub, e, R[i][j], note="entry [%d,%d] of cdist(U,U)" % (i, j))
                    return
        P = rp.tolist()
        k = 0
        for i in range(n):
            for j in range(i + 1, n):
                if P[k] != R[i][j]:
                    acc.fail("WeightedLevenshtein/pdist/not-upper-triangle", case, R[i][j], P[k], note="condensed index %d (i=%d,j=%d)" % (k, i, j))
                    return
                k += 1
        acc.ok((kind, case[1:], int(r.sum())), nontrivial=True)
    elif kind == "aspect":
        _, na, nb, w = case
        acc.cls("extreme-aspect-ratio")
        if na * nb > 100000:
            # about 2^22 matrix entries: strings drawn from a pool of 127, expected values looked up from the 127 x 127 table
            if w != (1, 3, 2):
                return
            pool = E.universe("AB", 6)
            ia = [(i * 37 + 11) % len(pool) for i in range(na)]
            ib = [(i * 53 + 5) % len(pool) for i in range(nb)]
            lut = np.array([[ref_wlev(a, b, *w) for b in pool] for a in pool])
            r = acc.call(mk(w).calc_cdist_matrix, [pool[i] for i in ia], [pool[i] for i in ib])
            expm = lut[np.array(ia)[:, None], np.array(ib)[None, :]]
            if raised(r) or not np.array_equal(np.asarray(r), expm):
                bad_rows = [] if raised(r) else np.flatnonzero((np.asarray(r) != expm).any(axis=1))[:5].tolist()
                acc.fail("WeightedLevenshtein/cdist/aspect-ratio", case, "directional distances anchors -> comparisons", r if raised(r) else "differs in rows %s" % bad_rows, note="shape %dx%d" % (na, nb))
                return
            acc.ok((na, nb, w), nontrivial=True)
            return
        pool = E.universe("AB", 8)
        A = [pool[(i * 37 + 11) % len(pool)] for i in range(na)]
        B = [pool[(i * 53 + 5) % len(pool)] for i in range(nb)]
        r = acc.call(mk(w).calc_cdist_matrix, A, B)
        exp = [[ref_wlev(a, b, *w) for b in B] for a in A]
        if raised(r) or r.tolist() != exp:
            acc.fail("WeightedLevenshtein/cdist/aspect-ratio", case, "directional distances anchors -> comparisons", r if raised(r) else "differs", note="shape %dx%d" % (na, nb))
            return
        acc.ok((na, nb, w), nontrivial=True)
    elif kind == "size":
        m_ = case[1]
        acc.cls("every-collection-size")
        L = np.array([(5 * i) % 13 for i in range(m_)])
        X = ["A" * int(l) for l in L]
        iu = np.triu_indices(m_, 1)
        for name, w, fn in (("WeightedLevenshtein", (1, 2, 3), mk((1, 2, 3)).calc_pdist_vector), ("Levenshtein", (1, 1, 1), Levenshtein().calc_pdist_vector),
                            ("functional-pdist", (1, 1, 1), pyrepseq.pdist)):
            if name == "functional-pdist" and m_ > 300:      # one Python-level metric call per pair: sizes up to 300 only
                continue
            T = np.array([[ref_wlev("A" * a, "A" * b, *w) for b in range(13)] for a in range(13)])
            exp = T[L[iu[0]], L[iu[1]]]
            v = acc.call(fn, list(X))
            if raised(v) or np.asarray(v).shape != exp.shape or not np.array_equal(np.asarray(v), exp):
                bad = None if raised(v) or np.asarray(v).shape != exp.shape else int(np.flatnonzero(np.asarray(v) != exp)[0])
                acc.fail("%s/every-collection-size/pdist" % name, case, {"length": int(exp.shape[0]), "first_wrong_index": bad, "expected_there": None if bad is None else float(exp[bad])},
                         v if raised(v) else {"length": int(np.asarray(v).shape[0]), "value_there": None if bad is None else float(np.asarray(v)[bad])})
                return
            acc.extra["entries_decided"] += int(exp.shape[0])
        acc.ok(("size", m_ % 64), nontrivial=True)
    elif kind == "clones":
        _, pi, w = case
        a, b = CLONE_PAIRS[pi]
        acc.cls("clone-dominated-collection")
        if "\x00" in a + b:
            acc.cls("trailing-nul")
        comp = [b, b, a + "L", a + "L"]
        m = mk(w)
        lev = Levenshtein()
        for pat in itertools.product((0, 1), repeat=9):
            X = [a if t == 0 else b for t in pat]
            v = acc.call(m.calc_pdist_vector, X)
            exp = [ref_wlev(X[i], X[j], *w) for i in range(9) for j in range(i + 1, 9)]
            c = acc.call(m.calc_cdist_matrix, X, comp)
            expc = [[ref_wlev(x, y, *w) for y in comp] for x in X]
            if raised(v) or np.asarray(v).tolist() != exp or raised(c) or np.asarray(c).tolist() != expc:
                acc.fail("WeightedLevenshtein/clone-dominated-collection", ("clones1", pi, w, pat), {"pdist": exp, "cdist": expc}, {"pdist": v if raised(v) else np.asarray(v).tolist(), "cdist": c if raised(c) else np.asarray(c).tolist()})
                return
            if w == (1, 1, 1):
                v2 = acc.call(lev.calc_pdist_vector, X)
                if raised(v2) or np.asarray(v2).tolist() != exp:
                    acc.fail("Levenshtein/clone-dominated-collection", ("clones1", pi, w, pat), exp, v2 if raised(v2) else np.asarray(v2).tolist())
                    return
            acc.ok()
        acc.ok(("clones", pi, w), nontrivial=True)
    elif kind == "clones1":
        _, pi, w, pat = case
        a, b = CLONE_PAIRS[pi]
        X = [a if t == 0 else b for t in pat]
        comp = [b, b, a + "L", a + "L"]
        v = acc.call(mk(w).calc_pdist_vector, X)
        c = acc.call(mk(w).calc_cdist_matrix, X, comp)
        exp = [ref_wlev(X[i], X[j], *w) for i in range(9) for j in range(i + 1, 9)]
        expc = [[ref_wlev(x, y, *w) for y in comp] for x in X]
        if raised(v) or np.asarray(v).tolist() != exp or raised(c) or np.asarray(c).tolist() != expc:
            acc.fail("WeightedLevenshtein/clone-dominated-collection", case, {"pdist": exp, "cdist": expc}, {"pdist": v if raised(v) else np.asarray(v).tolist(), "cdist": c if raised(c) else np.asarray(c).tolist()})
        else:
            acc.ok()
    elif kind == "pair":
        _, a, b, w = case
        r = acc.call(mk(w).calc_cdist_matrix, [a], [b])
        e = ref_wlev(a, b, *w)
        if raised(r) or r.tolist() != [[e]]:
            acc.fail("WeightedLevenshtein/cdist/value", case, e, r)
        else:
            acc.ok()
    elif kind == "layout":
        X = list(case[1])
        m_ = len(X)
        # every metric object is constructed before any of them is used: instances must not share their weights
        mets = {(w, cls): (mk(w) if cls == "W" else Levenshtein()) for w in ((1, 1, 1), (1, 2, 3), (3, 1, 2), (2, 2, 5)) for cls in (("W", "L") if w == (1, 1, 1) else ("W",))}
        acc.cls("several-metric-objects-alive")
        for w in ((1, 2, 3), (1, 1, 1), (3, 1, 2)):
            for cls in ("W", "L") if w == (1, 1, 1) else ("W",):
                met = mets[(w, cls)]
                v = acc.call(met.calc_pdist_vector, X)
                acc.cls("condensed-layout")
                if w[0] != w[1]:
                    acc.cls("asymmetric-ins-del")
                if raised(v):
                    acc.fail("pdist/raised", ("layout1", case[1], w, cls), "vector", v)
                    return
                if v.shape != (m_ * (m_ - 1) // 2,):
                    acc.fail("pdist/length", ("layout1", case[1], w, cls), m_ * (m_ - 1) // 2, v.shape)
                    return
                V = v.tolist()
                for i in range(m_):
                    for j in range(i + 1, m_):
                        idx = m_ * i + j - ((i + 2) * (i + 1)) // 2
                        e = ref_wlev(X[i], X[j], *w)
                        if V[idx] != e:
                            acc.fail("pdist/condensed-index", ("layout1", case[1], w, cls), e, V[idx], note="i=%d j=%d index=%d" % (i, j, idx))
                            return
                if m_ >= 2:
                    sq = ssd.squareform(v)
                    if sq.shape != (m_, m_) or any(sq[i, j] != ref_wlev(X[min(i, j)], X[max(i, j)], *w) for i in range(m_) for j in range(m_) if i != j):
                        acc.fail("pdist/squareform-roundtrip", ("layout1", case[1], w, cls), "upper-triangle distances mirrored", sq.tolist())
                        return
                    if ssd.squareform(sq, checks=False).tolist() != V:
                        acc.fail("pdist/squareform-roundtrip", ("layout1", case[1], w, cls), V, ssd.squareform(sq, checks=False).tolist())
                        return
                acc.ok((w, tuple(V)), nontrivial=any(V))
    elif kind == "layout1":
        check_case(("layout", case[1]), acc)
    elif kind == "long":
        _, n, shape, w = case
        a = "A" * n
        b = {"xy": "C" * n, "x-empty": "", "x-xy": "A" * (n - 1) + "C", "self": "A" * n}[shape]
        if n > 255:
            acc.cls("long-string>255")
        met = mk(w)
        r = acc.call(met.calc_cdist_matrix, [a, b], [a, b])
        v = acc.call(met.calc_pdist_vector, [a, b])
        exp = [[ref_wlev(x, y, *w) for y in (a, b)] for x in (a, b)]
        if raised(r) or r.tolist() != exp:
            acc.fail("WeightedLevenshtein/long-strings/%s" % ("raised" if raised(r) else "value"), case, exp, r, note="wrap-around?")
            return
        if raised(v) or v.tolist() != [exp[0][1]]:
            acc.fail("WeightedLevenshtein/long-strings/pdist", case, [exp[0][1]], v)
            return
        if w == (1, 1, 1):
            r2 = acc.call(Levenshtein().calc_cdist_matrix, [a, b], [a, b])
            if raised(r2) or r2.tolist() != exp:
                acc.fail("Levenshtein/long-strings", case, exp, r2)
                return
        acc.ok((n, shape, w, exp[0][1]), nontrivial=exp[0][1] > 0)
    elif kind == "func":
        X = list(case[1])
        U = E.universe("AB", 2)
        code = {s: i for i, s in enumerate(U)}

        def metric(a, b, scale=1):
            return scale * (code[a] * 64 + code[b])
        m_ = len(X)
        for scale in (1, 3):
            kw = {} if scale == 1 else {"scale": scale}
            if kw:
                acc.cls("kwargs-forwarded")
            v = acc.call(pyrepseq.pdist, X, metric=metric, dtype=np.int64, **kw)
            exp = [scale * (code[X[i]] * 64 + code[X[j]]) for i in range(m_) for j in range(i + 1, m_)]
            if raised(v) or v.tolist() != exp or v.dtype != np.int64:
                acc.fail("functional-pdist/%s" % ("kwargs" if kw else "layout"), case, exp, v)
                return
            Y = X[::-1] + X[:1]
            c = acc.call(pyrepseq.cdist, X, Y, metric=metric, dtype=np.int64, **kw)
            expc = [[scale * (code[a] * 64 + code[b]) for b in Y] for a in X]
            if raised(c) or c.tolist() != expc:
                acc.fail("functional-cdist/%s" % ("kwargs" if kw else "layout"), case, expc, c)
                return
            acc.ok((scale, tuple(exp)), nontrivial=any(exp))
        # a metric that takes its options as **options
        def metric_opts(a, b, **options):
            return options.get("scale", 1) * (code[a] * 64 + code[b]) + options.get("shift", 0)
        v = acc.call(pyrepseq.pdist, X, metric=metric_opts, dtype=np.int64, scale=3, shift=1)
        exp = [3 * (code[X[i]] * 64 + code[X[j]]) + 1 for i in range(m_) for j in range(i + 1, m_)]
        c = acc.call(pyrepseq.cdist, X, X[:2], metric=metric_opts, dtype=np.int64, scale=2)
        if raised(v) or v.tolist() != exp or raised(c) or c.tolist() != [[2 * (code[a] * 64 + code[b]) for b in X[:2]] for a in X]:
            acc.fail("functional-pdist/kwargs-to-var-keyword-metric", case, exp, v)
            return
        acc.ok()
        # option values that are None / 0 / False / '' are values like any other: forwarded as given, not replaced by the metric's defaults
        def metric_cap(a, b, cap=5, offset=1, flag=True, tag="x"):
            base = code[a] * 64 + code[b]
            if cap is not None:
                base = min(base, cap)
            return base + offset + (1000 if flag else 0) + (100 if tag else 0)
        acc.cls("none-and-falsy-option-values")
        for kw in (dict(cap=None), dict(offset=0), dict(flag=False), dict(tag=""), dict(cap=None, offset=0, flag=False, tag="")):
            v = acc.call(pyrepseq.pdist, X, metric=metric_cap, dtype=np.int64, **kw)
            exp = [metric_cap(X[i], X[j], **kw) for i in range(m_) for j in range(i + 1, m_)]
            c = acc.call(pyrepseq.cdist, X, X[:2], metric=metric_cap, dtype=np.int64, **kw)
            expc = [[metric_cap(a, b, **kw) for b in X[:2]] for a in X]
            if raised(v) or v.tolist() != exp or raised(c) or c.tolist() != expc:
                acc.fail("functional-pdist/none-or-falsy-option-value", case, exp, v, note=str(kw))
                return
            acc.ok()
        # a metric given as a callable *object* whose truth value is False (e.g. a memoising metric with an empty cache and __len__)
        class CachingMetric:
            def __init__(self):
                self.cache = {}

            def __len__(self):
                return 0            # reports an empty cache: bool(metric) is False

            def __call__(self, a, b):
                return code[a] * 64 + code[b]
        acc.cls("falsy-metric-object")
        v = acc.call(pyrepseq.pdist, X, metric=CachingMetric(), dtype=np.int64)
        exp = [code[X[i]] * 64 + code[X[j]] for i in range(m_) for j in range(i + 1, m_)]
        c = acc.call(pyrepseq.cdist, X, X[:1], metric=CachingMetric(), dtype=np.int64)
        if raised(v) or v.tolist() != exp or raised(c) or c.tolist() != [[code[a] * 64 + code[X[0]]] for a in X]:
            acc.fail("functional-pdist/metric-object-with-false-truth-value", case, exp, v)
            return
        acc.ok()
        # default metric with forwarded keyword arguments (python-Levenshtein's distance: score_cutoff -> cutoff+1 beyond it, weights)
        first = lambda s_: s_[:1]
        for kw, ref in (({"score_cutoff": 0}, lambda a, b: min(ref_lev(a, b), 1)), ({"weights": (1, 2, 3)}, lambda a, b: ref_wlev(a, b, 1, 2, 3)),
                        ({"processor": first}, lambda a, b: ref_lev(a[:1], b[:1])), ({"weights": (2, 1, 3), "score_cutoff": 2}, lambda a, b: min(ref_wlev(a, b, 2, 1, 3), 3))):
            acc.cls("kwargs-forwarded")
            v = acc.call(pyrepseq.pdist, X, **kw)
            exp = [ref(X[i], X[j]) for i in range(m_) for j in range(i + 1, m_)]
            if raised(v) or v.tolist() != exp:
                acc.fail("functional-pdist/default-metric-kwargs", case, exp, v, note=str(sorted(kw)))
                return
            c = acc.call(pyrepseq.cdist, X, X[::-1], **kw)
            expc = [[ref(a, b) for b in X[::-1]] for a in X]
            if raised(c) or c.tolist() != expc:
                acc.fail("functional-cdist/default-metric-kwargs", case, expc, c, note=str(sorted(kw)))
                return
            acc.ok()
        # default metric, default dtype; generators as input
        v = acc.call(pyrepseq.pdist, (s for s in X))
        exp = [ref_lev(X[i], X[j]) for i in range(m_) for j in range(i + 1, m_)]
        if raised(v) or v.tolist() != exp:
            acc.fail("functional-pdist/default-metric", case, exp, v)
            return
        c = acc.call(pyrepseq.cdist, tuple(X), iter(X[::-1]))
        expc = [[ref_lev(a, b) for b in X[::-1]] for a in X]
        if raised(c) or c.tolist() != expc:
            acc.fail("functional-cdist/default-metric", case, expc, c)
            return
        acc.ok()
    else:
        raise HarnessError("unknown case %r" % (case,))
