"""C12 - one-edit neighbourhood generators and the set utilities on them are exact."""
import itertools
from mc.core import Space, HarnessError, raised
from mc import enum as E
from mc.refmodel import ref_lev, ref_hamming, naive_one_edit, naive_one_sub, ref_ball

ID = "C12"
RULE = ("every string up to the length bound over alphabets of 1..4 letters (and strings with letters outside the alphabet) is fed to "
        "levenshtein_neighbors / hamming_neighbors (every subset of positions) / next_nearest_neighbors and compared with the naive one-edit "
        "set / BFS ball (list: no repeats; set: equal); every subset of two small sequence families is fed to find_neighbor_pairs, "
        "find_neighbor_pairs_index, calculate_neighbor_numbers, isdist1; nndist_hamming over all 4-letter strings x all reference subsets; "
        "non-trivial = non-empty expected neighbourhood")
ASSUMPTIONS = ["alphabets of more than 4 letters only through the default 20-letter alphabet on short strings"]
REQUIRED_CLASSES = {"all": ["empty-string", "homopolymer", "repeated-run", "letter-outside-alphabet", "position-subset", "default-20-letter-alphabet", "nndist-cutoff", "mixed-length-reference", "more-than-255-neighbours", "one-shot-iterator-positions", "neighbourhood-with-repeats", "empty-reference", "query-longer-than-every-reference", "interleaved-generators", "stored-set-neighbourhood", "find_neighbor_pairs-list-with-repeats"]}
MIN_OUTCOMES = 10
AA = "ACDEFGHIKLMNPQRSTVWY"


def spaces(tier):
    q = tier == "quick"

    def gen_gen():
        for alpha, L in (("A", 6), ("AC", 6), ("ACD", 5), ("ACDE", 4)) if q else (("A", 10), ("AC", 10), ("ACD", 7), ("ACDE", 6)):
            for x in E.universe(alpha, L):
                yield ("gen", x, alpha)
        for x in E.universe("AX", 4):       # letters outside the alphabet
            if "X" in x:
                yield ("gen", x, "AC")
        for x in E.universe("AC", 3 if q else 4):
            yield ("gen", x, AA)

    def gen_sets():
        fam1 = E.universe("AC", 2)
        fam2 = ["A", "AC", "ACC", "CC", "AAC", "CAC", "", "CCA", "ACA"]
        for fi, fam in enumerate((fam1, fam2)):
            for sub in E.subsets(range(len(fam)), 1):
                yield ("sets", fi, sub)

    def gen_nn():
        refset = ["ACDA", "ACDD", "CCDA", "DDDD", "ACAC", "CADC"]
        for sub in E.subsets(range(len(refset)), 1):
            yield ("nndist", sub)
        for sub in E.subsets(range(len(MIXED_REF)), 1):
            yield ("nndist-mixed", sub)
        yield ("hub", "CASSLGF")
        yield ("hub", "CASSLGQAYEQYFG")

    return [
        Space("generators-all-strings", gen_gen, "all strings: lengths <= 6,6,5,4 (quick) / 10,10,7,6 (thorough) over alphabets of 1,2,3,4 letters; strings with a letter outside the alphabet; U(AC,3|4) over the 20-letter default", shards=32),
        Space("set-utilities-all-subsets", gen_sets, "every non-empty subset of U(AC,2) (127) and of a 9-string mixed-length family (511) x both neighbourhoods"),
        Space("nndist_hamming", gen_nn, "seq in all 81 four-letter strings over ACD x every non-empty subset of a 6-string reference x maxdist 1..4 (5 must raise NotImplementedError)"),
    ]


MIXED_REF = ["ACD", "ACDAA", "CDA", "ACDD", "AACDA", "DDDDD", "ACA"]     # lengths 3..5; queries of length 1..4


def check_case(case, acc):
    import pyrepseq
    kind = case[0]
    if kind == "gen":
        _, x, alpha = case
        if x == "":
            acc.cls("empty-string")
        if len(x) >= 2 and len(set(x)) == 1:
            acc.cls("homopolymer")
        if any(x[i] == x[i + 1] for i in range(len(x) - 1)):
            acc.cls("repeated-run")
        if any(c not in alpha for c in x):
            acc.cls("letter-outside-alphabet")
        if alpha == AA:
            acc.cls("default-20-letter-alphabet")
        # levenshtein_neighbors
        r = acc.call(lambda: list(pyrepseq.levenshtein_neighbors(x, alpha) if alpha != AA else pyrepseq.levenshtein_neighbors(x)))
        exp = naive_one_edit(x, alpha)
        if raised(r):
            acc.fail("levenshtein_neighbors/raised", case, sorted(exp), r)
            return
        if len(r) != len(set(r)):
            dup = sorted(s for s in set(r) if r.count(s) > 1)
            acc.fail("levenshtein_neighbors/repeated", case, "each once", dup[:5])
            return
        if set(r) != exp:
            acc.fail("levenshtein_neighbors/%s" % ("missing" if exp - set(r) else "spurious"), case, sorted(exp - set(r))[:5], sorted(set(r) - exp)[:5], note="expected-only vs observed-only")
            return
        if any(ref_lev(x, y) != 1 for y in r):
            raise HarnessError("naive one-edit model inconsistent with ref_lev for %r" % x)
        acc.ok(("lev", len(r)), nontrivial=bool(exp))
        # hamming_neighbors for every subset of positions
        if len(x) <= 4 and all(c in alpha for c in x) or len(x) <= 3:
            for pos0 in [None] + [list(p) for p in E.subsets(range(len(x)))] + [("iter", p) for p in E.subsets(range(len(x)), 1)]:
                pos = pos0
                if isinstance(pos0, tuple) and pos0 and pos0[0] == "iter":
                    pos = list(pos0[1])         # positions handed over as a one-shot iterator ("iterable of positions")
                    acc.cls("one-shot-iterator-positions")
                if pos is not None:
                    acc.cls("position-subset")
                kw = {} if pos is None else {"variable_positions": (iter(pos) if pos0 is not pos else pos)}
                r = acc.call(lambda: list(pyrepseq.hamming_neighbors(x, alpha, **kw)))
                exp = naive_one_sub(x, alpha, pos)
                if raised(r) or len(r) != len(set(r)) or set(r) != exp:
                    acc.fail("hamming_neighbors/%s" % ("raised" if raised(r) else "repeated" if len(r) != len(set(r)) else "set"), ("ham", x, alpha, None if pos is None else tuple(pos)), sorted(exp)[:10], r if raised(r) else sorted(r)[:10])
                    return
                acc.ok(("ham", len(r)), nontrivial=bool(exp))
        # two generators alive at the same time (consumed in lock step): each still yields its own exact neighbourhood
        if x and alpha != AA and all(c in alpha for c in x):
            acc.cls("interleaved-generators")
            x2 = x[::-1] if x[::-1] != x else (x[1:] + x[:1] if len(set(x)) > 1 else x + alpha[-1])
            for fname, fn, step in (("hamming_neighbors", pyrepseq.hamming_neighbors, naive_one_sub), ("levenshtein_neighbors", pyrepseq.levenshtein_neighbors, naive_one_edit)):
                def both():
                    g1, g2 = fn(x, alpha), fn(x2, alpha)
                    o1, o2 = [], []
                    for a_, b_ in itertools.zip_longest(g1, g2):
                        if a_ is not None:
                            o1.append(a_)
                        if b_ is not None:
                            o2.append(b_)
                    return o1, o2
                r = acc.call(both)
                e1, e2 = step(x, alpha), step(x2, alpha)
                if raised(r) or len(r[0]) != len(e1) or set(r[0]) != e1 or len(r[1]) != len(e2) or set(r[1]) != e2:
                    acc.fail("%s/two-generators-in-lock-step" % fname, ("gen", x, alpha), {"first": sorted(e1)[:8], "second": sorted(e2)[:8]}, r if raised(r) else {"first": sorted(r[0])[:8], "second": sorted(r[1])[:8]}, note="second string %r" % x2)
                    return
                acc.ok()
        # a neighbourhood given as a look-up in the caller's own adjacency table (stored sets / lists): the table is the caller's
        if len(x) <= 3 and alpha != AA and all(c in alpha for c in x):
            acc.cls("stored-set-neighbourhood")
            for box in (set, list, frozenset):
                table = {}

                def stored(y, box=box):
                    if y not in table:
                        table[y] = box(naive_one_sub(y, alpha))
                    return table[y]
                for md in (2, 1):
                    r = acc.call(pyrepseq.next_nearest_neighbors, x, stored, maxdistance=md)
                    exp = set(ref_ball(x, alpha, md, step=naive_one_sub)) - {x}
                    bad_table = [y for y, v in table.items() if set(v) != naive_one_sub(y, alpha) or len(v) != len(naive_one_sub(y, alpha))]
                    if raised(r) or set(r) != exp or bad_table:
                        acc.fail("next_nearest_neighbors/stored-%s-neighbourhood%s" % (box.__name__, "/callers-table-modified" if bad_table else ""), ("gen", x, alpha), sorted(exp)[:10], r if raised(r) else sorted(r)[:10], note="maxdistance=%d after maxdistance=2; modified entries: %r" % (md, bad_table[:3]))
                        return
                    acc.ok()
        # next_nearest_neighbors
        if len(x) <= (4 if len(alpha) <= 2 else 3) and alpha != AA:
            for md in (1, 2, 3):
                for nb, step in (("lev", naive_one_edit), ("ham", naive_one_sub)):
                    f = (lambda y: pyrepseq.levenshtein_neighbors(y, alpha)) if nb == "lev" else (lambda y: pyrepseq.hamming_neighbors(y, alpha))
                    r = acc.call(pyrepseq.next_nearest_neighbors, x, f, maxdistance=md)
                    exp = set(ref_ball(x, alpha, md, step=step)) - {x}
                    if raised(r) or set(r) != exp or x in r:
                        acc.fail("next_nearest_neighbors/%s" % nb, ("nnn", x, alpha, md, nb), sorted(exp)[:10], r if raised(r) else sorted(r)[:10])
                        return
                    acc.ok(("nnn", md, len(exp)), nontrivial=bool(exp))
    elif kind in ("ham", "nnn"):
        # replay helpers
        if kind == "ham":
            _, x, alpha, pos = case
            kw = {} if pos is None else {"variable_positions": list(pos)}
            r = acc.call(lambda: list(pyrepseq.hamming_neighbors(x, alpha, **kw)))
            exp = naive_one_sub(x, alpha, pos)
            if raised(r) or len(r) != len(set(r)) or set(r) != exp:
                acc.fail("hamming_neighbors/replay", case, sorted(exp), r)
            else:
                acc.ok()
        else:
            _, x, alpha, md, nb = case
            f = (lambda y: pyrepseq.levenshtein_neighbors(y, alpha)) if nb == "lev" else (lambda y: pyrepseq.hamming_neighbors(y, alpha))
            r = acc.call(pyrepseq.next_nearest_neighbors, x, f, maxdistance=md)
            exp = set(ref_ball(x, alpha, md, step=naive_one_edit if nb == "lev" else naive_one_sub)) - {x}
            if raised(r) or set(r) != exp:
                acc.fail("next_nearest_neighbors/replay", case, sorted(exp), r)
            else:
                acc.ok()
    elif kind == "sets":
        _, fi, sub = case
        fam = E.universe("AC", 2) if fi == 0 else ["A", "AC", "ACC", "CC", "AAC", "CAC", "", "CCA", "ACA"]
        seqs = [fam[i] for i in sub]
        for nb, dist, f in (("hamming", ref_hamming, lambda y: pyrepseq.hamming_neighbors(y, "AC")), ("levenshtein", ref_lev, lambda y: pyrepseq.levenshtein_neighbors(y, "AC"))):
            exp_pairs = {frozenset((a, b)) for a, b in itertools.combinations(seqs, 2) if dist(a, b) == 1}
            r = acc.call(pyrepseq.find_neighbor_pairs, seqs, f)
            if raised(r) or len(r) != len({frozenset(p) for p in r}) or {frozenset(p) for p in r} != exp_pairs or any(len(set(p)) != 2 for p in r):
                acc.fail("find_neighbor_pairs/%s" % nb, case, sorted(map(sorted, exp_pairs)), r)
                return
            acc.ok(("fnp", nb, len(exp_pairs)), nontrivial=bool(exp_pairs))
            # also as a list in reversed order and as a set
            for variant in (seqs[::-1], set(seqs)):
                before = sorted(variant) if isinstance(variant, set) else list(variant)
                r = acc.call(pyrepseq.find_neighbor_pairs, variant, f)
                if raised(r) or len(r) != len(exp_pairs) or {frozenset(p) for p in r} != exp_pairs:
                    acc.fail("find_neighbor_pairs/%s/order-or-container" % nb, case, sorted(map(sorted, exp_pairs)), r)
                    return
                after = sorted(variant) if isinstance(variant, set) else list(variant)
                if after != before:
                    acc.fail("find_neighbor_pairs/%s/caller-collection-modified" % nb, case, before, after)
                    return
                # the same collection object used again by the other utilities
                if isinstance(variant, set):
                    r2 = acc.call(pyrepseq.find_neighbor_pairs, variant, f)
                    n2 = acc.call(pyrepseq.calculate_neighbor_numbers, seqs, reference=variant, neighborhood=f)
                    e_n = [sum(1 for b in set(seqs) if dist(a, b) == 1) for a in seqs]
                    if raised(r2) or {frozenset(p) for p in r2} != exp_pairs or raised(n2) or list(n2) != e_n:
                        acc.fail("find_neighbor_pairs/%s/second-use-of-the-same-set" % nb, case, {"pairs": sorted(map(sorted, exp_pairs)), "numbers": e_n}, {"pairs": r2, "numbers": n2})
                        return
                acc.ok()
            # a list in which sequences recur (clone copies): every unordered pair of DISTINCT sequences is still listed once
            if seqs:
                acc.cls("find_neighbor_pairs-list-with-repeats")
                for variant in ([s for x in seqs for s in (x, seqs[0])], [s for x in seqs for s in (x, x)], seqs + seqs[::-1], [seqs[-1]] + seqs):
                    r = acc.call(pyrepseq.find_neighbor_pairs, list(variant), f)
                    if raised(r) or len(r) != len(exp_pairs) or {frozenset(p) for p in r} != exp_pairs:
                        acc.fail("find_neighbor_pairs/%s/list-with-repeats" % nb, case, sorted(map(sorted, exp_pairs)), r, note="seqs=%r" % (variant,))
                        return
                    acc.ok()
            exp_idx = {(i, j) for i in range(len(seqs)) for j in range(len(seqs)) if i != j and dist(seqs[i], seqs[j]) == 1}
            r = acc.call(pyrepseq.find_neighbor_pairs_index, seqs, f)
            if raised(r) or len(r) != len(set(r)) or set(r) != exp_idx:
                acc.fail("find_neighbor_pairs_index/%s" % nb, case, sorted(exp_idx), r)
                return
            acc.ok()
            exp_n = [sum(1 for j, b in enumerate(seqs) if dist(a, b) == 1) for a in seqs]
            r = acc.call(pyrepseq.calculate_neighbor_numbers, seqs, neighborhood=f)
            if raised(r) or list(r) != exp_n:
                acc.fail("calculate_neighbor_numbers/%s" % nb, case, exp_n, r)
                return
            acc.ok()
            # a user-supplied neighbourhood may yield a neighbour more than once: partners are still counted once
            f_dup = (lambda y, f=f: list(f(y)) + list(f(y))[:3])
            exp_n = [sum(1 for j, b in enumerate(set(seqs)) if dist(a, b) == 1) for a in seqs]
            r = acc.call(pyrepseq.calculate_neighbor_numbers, seqs, neighborhood=f_dup)
            rp = acc.call(pyrepseq.find_neighbor_pairs, seqs, f_dup)
            acc.cls("neighbourhood-with-repeats")
            if raised(r) or list(r) != exp_n or raised(rp) or len(rp) != len(exp_pairs) or {frozenset(p) for p in rp} != exp_pairs:
                acc.fail("calculate_neighbor_numbers/%s/neighbourhood-with-repeats" % nb, case, {"numbers": exp_n, "pairs": len(exp_pairs)}, {"numbers": r, "pairs": rp})
                return
            acc.ok()
            for empty in (set(), frozenset()):       # reference sets (the quantifier says sets; a list reference is not supported by the set algebra)
                r = acc.call(pyrepseq.calculate_neighbor_numbers, seqs, reference=empty, neighborhood=f)
                if raised(r) or list(r) != [0] * len(seqs):
                    acc.fail("calculate_neighbor_numbers/%s/empty-reference" % nb, case, [0] * len(seqs), r, note=type(empty).__name__)
                    return
                acc.ok()
            acc.cls("empty-reference")
            # explicit references, including ones whose strings are all shorter / all longer than some queries (a query one
            # residue longer than every reference string still reaches it by a deletion)
            for ref in (set(fam[::2]), {x for x in fam if len(x) <= 1}, {x for x in fam if len(x) == 2}, {""}, {x for x in fam if len(x) == 1}):
                exp_n = [sum(1 for b in ref if dist(a, b) == 1) for a in seqs]
                if any(len(a) > max(map(len, ref)) for a in seqs) and any(exp_n):
                    acc.cls("query-longer-than-every-reference")
                r = acc.call(pyrepseq.calculate_neighbor_numbers, seqs, reference=ref, neighborhood=f)
                if raised(r) or list(r) != exp_n:
                    acc.fail("calculate_neighbor_numbers/%s/reference" % nb, case, exp_n, r, note="reference=%r" % sorted(ref))
                    return
                for x in fam:
                    e = any(dist(x, b) == 1 for b in ref)
                    r = acc.call(pyrepseq.isdist1, x, ref, neighborhood=f)
                    if raised(r) or bool(r) != e:
                        acc.fail("isdist1/%s/reference-of-other-lengths" % nb, case, e, r, note="x=%r reference=%r" % (x, sorted(ref)))
                        return
                acc.ok()
            for x in fam:
                e = any(dist(x, b) == 1 for b in seqs)
                r = acc.call(pyrepseq.isdist1, x, set(seqs), neighborhood=f)
                if raised(r) or bool(r) != e or not isinstance(r, bool):
                    acc.fail("isdist1/%s" % nb, ("isdist1", x, tuple(seqs), nb), e, r)
                    return
                acc.ok()
    elif kind == "isdist1":
        _, x, seqs, nb = case
        f = (lambda y: pyrepseq.hamming_neighbors(y, "AC")) if nb == "hamming" else (lambda y: pyrepseq.levenshtein_neighbors(y, "AC"))
        dist = ref_hamming if nb == "hamming" else ref_lev
        r = acc.call(pyrepseq.isdist1, x, set(seqs), neighborhood=f)
        e = any(dist(x, b) == 1 for b in seqs)
        if raised(r) or bool(r) != e:
            acc.fail("isdist1/replay", case, e, r)
        else:
            acc.ok()
    elif kind == "nndist":
        refset = ["ACDA", "ACDD", "CCDA", "DDDD", "ACAC", "CADC"]
        ref = {refset[i] for i in case[1]}
        for t in itertools.product("ACD", repeat=4):
            x = "".join(t)
            true = min(ref_hamming(x, b) for b in ref)
            for md in (1, 2, 3, 4):
                if true > md:
                    acc.cls("nndist-cutoff")
                for refc in (ref, frozenset(ref)) if md == 4 else (ref,):
                    r = acc.call(pyrepseq.nndist_hamming, x, refc, maxdist=md)
                    if raised(r) or r != min(true, md):
                        acc.fail("nndist_hamming/value", ("nn1", x, tuple(sorted(ref)), md), min(true, md), r)
                        return
                    acc.ok(("nn", min(true, md)), nontrivial=true > 0)
        r = acc.call(pyrepseq.nndist_hamming, "ACDA", ref, maxdist=5)
        if not (raised(r) and r.type == "NotImplementedError"):
            acc.fail("nndist_hamming/maxdist>4-accepted", case, "NotImplementedError", r)
        else:
            acc.ok()
    elif kind == "nndist-mixed":
        # references of other lengths are never Hamming neighbours (an indel neighbour must not count as distance 1)
        ref = {MIXED_REF[i] for i in case[1]}
        acc.cls("mixed-length-reference")
        for t in itertools.chain(*[itertools.product("ACD", repeat=L) for L in (1, 2, 3, 4)]):
            x = "".join(t)
            same = [ref_hamming(x, b) for b in ref if len(b) == len(x)]
            true = min(same) if same else float("inf")
            for md in (1, 2, 3, 4):
                r = acc.call(pyrepseq.nndist_hamming, x, ref, maxdist=md)
                if raised(r) or r != min(true, md):
                    acc.fail("nndist_hamming/mixed-length-reference", ("nn1", x, tuple(sorted(ref)), md), min(true, md), r)
                    return
                acc.ok(("nnm", min(true, md)), nontrivial=bool(same))
    elif kind == "hub":
        # a sequence with several hundred distance-1 partners inside the reference (20-letter alphabet): counts beyond 255
        hub = case[1]
        acc.cls("more-than-255-neighbours")
        AA20 = "ACDEFGHIKLMNPQRSTVWY"
        for nb, step, fn in (("levenshtein", naive_one_edit, pyrepseq.levenshtein_neighbors), ("hamming", naive_one_sub, pyrepseq.hamming_neighbors)):
            ball = step(hub, AA20)
            reference = set(ball) | {hub}
            seqs = [hub, sorted(ball)[0], "W" * len(hub), sorted(ball)[-1]]
            dist = ref_lev if nb == "levenshtein" else ref_hamming
            exp = [sum(1 for b in reference if dist(a, b) == 1) for a in seqs]
            r = acc.call(pyrepseq.calculate_neighbor_numbers, seqs, reference=reference, neighborhood=fn)
            if raised(r) or [int(v) for v in r] != exp:
                acc.fail("calculate_neighbor_numbers/%s/large-counts" % nb, case, exp, r)
                return
            if len(hub) > 8:
                acc.ok(("hub", nb, exp[0]), nontrivial=True)
                continue
            r = acc.call(pyrepseq.calculate_neighbor_numbers, sorted(reference), neighborhood=fn)
            e2 = [sum(1 for b in reference if dist(a, b) == 1) for a in sorted(reference)]
            if raised(r) or [int(v) for v in r] != e2:
                acc.fail("calculate_neighbor_numbers/%s/large-counts" % nb, case, e2[:10], r if raised(r) else [int(v) for v in r][:10])
                return
            pairs = acc.call(pyrepseq.find_neighbor_pairs, sorted(reference), fn)
            np_exp = sum(e2) // 2
            if raised(pairs) or len(pairs) != np_exp or len({frozenset(p) for p in pairs}) != np_exp:
                acc.fail("find_neighbor_pairs/%s/large-set" % nb, case, np_exp, pairs if raised(pairs) else len(pairs))
                return
            acc.ok(("hub", nb, exp[0]), nontrivial=True)
    elif kind == "nn1":
        _, x, ref, md = case
        true = min([ref_hamming(x, b) for b in ref if len(b) == len(x)] or [float("inf")])
        r = acc.call(pyrepseq.nndist_hamming, x, set(ref), maxdist=md)
        if raised(r) or r != min(true, md):
            acc.fail("nndist_hamming/value", case, min(true, md), r)
        else:
            acc.ok()
    else:
        raise HarnessError("unknown case %r" % (case,))
