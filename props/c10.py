"""C10 - search results do not depend on output format or input container; invalid arguments are rejected."""
import itertools
from mc.core import Space, HarnessError, raised
from mc import enum as E
from mc.refmodel import neighbors_within
from mc.nnutil import diagnose, digest

ID = "C10"
RULE = ("each logical call (engine, sequences[, query], k, mode) is executed for output_type in {triplets, coo_matrix, ndarray} x "
        "container in {list, tuple, ndarray, Series default/shifted/permuted/string index}; triplets compared with the reference "
        "set, matrices with the matrix built from the reference ([r,q]=d, shape (len(seqs), len(seqs2))), COO checked for duplicate "
        "coordinates; every invalid-argument class must raise on every engine; non-trivial = expected set non-empty")
ASSUMPTIONS = ["two-collection calls vary one container at a time (star) plus both-permuted, not the full 7x7 product",
               "an invalid argument is 'rejected' when any exception is raised"]
REQUIRED_CLASSES = {"all": ["series-permuted-labels", "series-shifted-labels", "coo-output", "ndarray-output", "invalid-argument", "non-square-matrix", "non-integer-distances", "asymmetric-result", "more-queries-than-references", "radius-3-and-4-in-every-container", "invalid-argument-with-a-lone-sequence", "empty-query-collection", "progress-bar-with-every-query-container"]}
MIN_OUTCOMES = 10

CONTAINERS = ("list", "tuple", "ndarray", "series", "series_shift", "series_perm", "series_str", "ndarray_object")
OUTPUTS = ("triplets", "coo_matrix", "ndarray")
MODES = ("lev", "hamming", "halflev", "mixedlev")
SELF_ENG = ("nearest_neighbor", "symdel", "hash_based", "kdtree")
TWO_ENG = ("symdel2", "nn2", "SymdelDB", "LookupDB")


def box(seqs, container):
    import numpy as np
    import pandas as pd
    seqs = list(seqs)
    n = len(seqs)
    if container == "list":
        return seqs
    if container == "tuple":
        return tuple(seqs)
    if container == "ndarray":
        return np.array(seqs, dtype=object) if False else np.array(seqs)
    if container == "ndarray_object":
        return np.array(seqs + [None], dtype=object)[:n]       # object dtype (item size = pointer size), not a fixed-width string array
    if container == "series":
        return pd.Series(seqs)
    if container == "series_shift":
        return pd.Series(seqs, index=range(5, 5 + n))
    if container == "series_perm":
        return pd.Series(seqs, index=[(i + 1) % n for i in range(n)])
    if container == "series_str":
        return pd.Series(seqs, index=["r%d" % (n - i) for i in range(n)])
    raise HarnessError(container)


def halflev(a, b):
    # non-integer and not exactly representable in float32 (0.3, 0.6, ...)
    from mc.refmodel import ref_lev
    return ref_lev(a, b) * 0.3


def mixedlev(a, b):
    # a Python int for some pairs, a float for others
    from mc.refmodel import ref_lev
    d = ref_lev(a, b)
    return d if d <= 1 else d * 0.75


def _cd(mode):
    return "hamming" if mode == "hamming" else (halflev if mode == "halflev" else (mixedlev if mode == "mixedlev" else None))


def expected_for(seqs, k, mode, queries=None):
    """reference triplets; mode 'halflev' is a callable custom distance with non-integer values (both radii: lev <= k, custom <= inf)"""
    if mode == "halflev":
        base = neighbors_within(list(seqs), k, queries=None if queries is None else list(queries))
        return {(q, r, d * 0.3) for q, r, d in base}
    if mode == "mixedlev":
        base = neighbors_within(list(seqs), k, queries=None if queries is None else list(queries))
        return {(q, r, d if d <= 1 else d * 0.75) for q, r, d in base}
    return neighbors_within(list(seqs), k, queries=None if queries is None else list(queries), dist=mode)


def call_self(acc, eng, seqs, k, mode, out):
    import pyrepseq
    kw = dict(output_type=out)
    if mode != "lev":
        kw["custom_distance"] = _cd(mode)
    return acc.call(getattr(pyrepseq, eng), seqs, k, **kw)


def call_two(acc, eng, ref, query, k, mode, out):
    import pyrepseq
    from pyrepseq.nn import SymdelDB, LookupDB
    cd = _cd(mode)
    if eng == "symdel2":
        return acc.call(pyrepseq.symdel, ref, k, custom_distance=cd, output_type=out, seqs2=query)
    if eng == "nn2":
        return acc.call(pyrepseq.nearest_neighbor, ref, k, custom_distance=cd, output_type=out, seqs2=query)
    if eng == "SymdelDB":
        return acc.call(lambda: SymdelDB(ref, k).lookup(query, custom_distance=cd, output_type=out))
    if eng == "LookupDB":
        return acc.call(lambda: LookupDB(ref).lookup(query, max_edits=k, custom_distance=cd, output_type=out))
    if eng == "symdel2-progress":
        return acc.call(pyrepseq.symdel, ref, k, custom_distance=cd, output_type=out, seqs2=query, progress=True)
    if eng == "SymdelDB-progress":
        return acc.call(lambda: SymdelDB(ref, k).lookup(query, custom_distance=cd, output_type=out, progress=True))
    if eng == "LookupDB-progress":
        return acc.call(lambda: LookupDB(ref).lookup(query, max_edits=k, custom_distance=cd, output_type=out, progress=True))
    raise HarnessError(eng)


def expected_matrix(expected, nrow, ncol):
    m = [[0] * ncol for _ in range(nrow)]
    for qi, ri, d in expected:
        m[ri][qi] = d
    return m


def check_output(res, out, expected, nrow, ncol, self_mode):
    """None if res encodes exactly `expected`, else (failure class, detail)."""
    import numpy as np
    if raised(res):
        return ("raised-" + res.type, repr(res))
    if out == "triplets":
        return diagnose(res, expected, self_mode=self_mode)
    if out == "coo_matrix":
        import scipy.sparse
        if not scipy.sparse.issparse(res) or res.format != "coo":
            return ("not-coo", type(res).__name__)
        coords = list(zip(res.row.tolist(), res.col.tolist()))
        if len(coords) != len(set(coords)):
            return ("coo-duplicate-coordinates", sorted(coords)[:6])
        # "encodes exactly the triplet result": the stored entries ARE the triplets - a pair at distance 0 (identical sequences) is a
        # stored zero, which is the only way the sparse form can tell it from "not a neighbour"
        if sorted(coords) != sorted((ri, qi) for qi, ri, d in expected):
            return ("coo-stored-entries-differ-from-triplets", {"stored": sorted(coords)[:12], "triplets_as_row_col": sorted((ri, qi) for qi, ri, d in expected)[:12]})
        dense = res.toarray()
    else:
        if not isinstance(res, np.ndarray):
            return ("not-ndarray", type(res).__name__)
        dense = res
    if dense.shape != (nrow, ncol):
        return ("shape", (dense.shape, "expected", (nrow, ncol)))
    em = expected_matrix(expected, nrow, ncol)
    if dense.tolist() != em:    # numeric comparison: 1 == 1.0, 0.5 != 0
        # orientation diagnosis
        if nrow == ncol or True:
            try:
                if dense.T.tolist() == em and dense.T.shape == (nrow, ncol):
                    return ("matrix-transposed", dense.tolist())
            except Exception:
                pass
        return ("matrix-content", dense.tolist())
    return None


INVALID = (
    ("empty-input", dict(seqs=())),
    ("non-string-first", dict(seqs=(1, "A"))),
    ("non-string-lone", dict(seqs=(5,))),
    ("non-string-middle", dict(seqs=("A", None, "C"))),
    ("non-string-last", dict(seqs=("A", "C", 2.5))),
    ("non-string-bytes", dict(seqs=("A", b"C"))),
    ("max_edits-0", dict(max_edits=0)),
    ("max_edits-neg", dict(max_edits=-1)),
    ("max_edits-float", dict(max_edits=1.0)),
    ("max_edits-str", dict(max_edits="1")),
    ("max_edits-bool", dict(max_edits=True)),
    ("max_edits-none", dict(max_edits=None)),
    ("n_cpu-0", dict(n_cpu=0)),
    ("n_cpu-neg", dict(n_cpu=-1)),
    ("n_cpu-float", dict(n_cpu=1.5)),
    ("output_type-unknown", dict(output_type="dense")),
    ("output_type-none", dict(output_type=None)),
    ("output_type-wrong-case", dict(output_type="Triplets")),
    ("output_type-upper-case", dict(output_type="COO_MATRIX")),
    ("output_type-fragment", dict(output_type="matrix")),
    ("output_type-fragment2", dict(output_type="array")),
    ("output_type-empty", dict(output_type="")),
    ("output_type-padded", dict(output_type=" ndarray")),
    ("output_type-list", dict(output_type=["triplets"])),
    ("max_returns-0", dict(max_returns=0)),
    ("max_custom_distance-neg", dict(max_custom_distance=-1.0, custom_distance="lev")),
)


def spaces(tier):
    q = tier == "quick"
    U2 = E.universe("AC", 2)

    def gen_self():
        for seqs in E.lists(U2, 3 if q else 4):
            yield ("self", seqs)
        yield ("self-sparse", ("ACDE", "AFGH", "WWWW", "ACD", "", "ACDEFGHIK", "AFGHEFGHIK"))

    def gen_maxret():
        for seqs in E.lists(U2, 4, minlen=3):
            yield ("maxret", seqs)

    def gen_two():
        if q:
            for ref in E.lists(U2, 2):
                for query in E.lists(E.universe("AC", 1), 2):
                    yield ("two", ref, query)
        else:
            for ref in E.lists(U2, 2):
                for query in E.lists(U2, 2):
                    yield ("two", ref, query)
            for ref in E.lists(U2, 3, minlen=3):
                for query in E.lists(E.universe("AC", 1), 2):
                    yield ("two", ref, query)

    def gen_wide():
        U1 = E.universe("AC", 1)
        for ref in E.lists(U1, 3, minlen=2):
            for query in E.lists(U1, 5 if not q else 4, minlen=len(ref) + 1):
                yield ("wide", ref, query)
            yield ("wide", ref, ())          # an empty batch of queries: either refused, or answered with matrices of shape (len(ref), 0)

    def gen_invalid():
        for name, _ in INVALID:
            for eng in SELF_ENG + ("symdel2",):
                for cont in ("list", "ndarray", "series"):
                    yield ("invalid", name, eng, cont)
        for eng in ("symdel2", "nn2"):
            for cont in ("list", "ndarray", "series"):
                yield ("invalid2", eng, cont)

    return [
        Space("self-search-formats-x-containers", gen_self, "Lists(U(AC,2),3|4) x k in 1..2 x {levenshtein, hamming, callable with non-integer values} x 4 engines x 3 output types x 7 containers (hash_based k=1 only)", shards=64),
        Space("two-collection-formats-x-containers", gen_two, "ref in Lists(U(AC,2),2[,3]) x query in Lists(U(AC,1|2),2) x k in 1..2 x 3 distance modes x 4 engines x 3 outputs x container star (13 combinations + both permuted)", shards=64),
        Space("asymmetric-results-in-matrix-form", gen_maxret, "Lists(U(AC,2),4), N>=3 x kdtree max_returns in 1..2 x k in 1..2 x {levenshtein, hamming} x {coo_matrix, ndarray} x {list, Series with permuted labels}: matrix == matrix of the triplets the same call reports", shards=32),
        Space("more-queries-than-references", gen_wide, "ref in Lists(U(AC,1),2..3) x query in Lists(U(AC,1),len(ref)+1..4|5): every matrix output of the four two-collection engines (flat (row, column) bookkeeping must use the right stride)", shards=32),
        Space("invalid-arguments", gen_invalid, "%d invalid-argument classes x 5 engines x 3 containers" % len(INVALID)),
    ]


def check_case(case, acc):
    kind = case[0]
    if kind == "self":
        seqs = case[1]
        n = len(seqs)
        for k in (1, 2):
            for mode in MODES:
                expected = expected_for(seqs, k, mode)
                if mode == "halflev":
                    acc.cls("non-integer-distances")
                for eng in SELF_ENG:
                    if eng == "hash_based" and k > 1:
                        continue
                    for out in OUTPUTS:
                        for cont in (CONTAINERS if mode in ("lev", "hamming") else (("list", "ndarray", "series_perm", "series_shift") if mode == "halflev" else ("list",))):
                            _one_self(acc, eng, seqs, k, mode, out, cont, expected)
    elif kind == "self-sparse":
        # larger radii on a sparse collection (pairs exactly 3 and 4 edits apart) in every container
        seqs = case[1]
        acc.cls("radius-3-and-4-in-every-container")
        for k in (3, 4):
            for mode in ("lev", "hamming"):
                expected = expected_for(seqs, k, mode)
                for eng in ("nearest_neighbor", "symdel", "kdtree"):
                    for out in OUTPUTS:
                        for cont in CONTAINERS:
                            _one_self(acc, eng, seqs, k, mode, out, cont, expected)
    elif kind == "maxret":
        # kdtree with max_returns gives an asymmetric neighbour list: matrix outputs must hold d at [r, q] of exactly the triplets
        # the same call reports (row = reported neighbour r, column = query q)
        import pyrepseq
        seqs = list(case[1])
        n = len(seqs)
        for m in (1, 2):
            for k in (1, 2):
                for mode in ("lev", "hamming"):
                    kw = dict(max_returns=m)
                    if mode == "hamming":
                        kw["custom_distance"] = "hamming"
                    trip = acc.call(pyrepseq.kdtree, seqs, k, **kw)
                    if raised(trip):
                        acc.fail("kdtree/%s/max_returns/raised" % mode, case, "triplets", trip)
                        return
                    tset = {(int(a), int(b), d) for a, b, d in trip}
                    if {(b, a) for a, b, d in tset} != {(a, b) for a, b, d in tset}:
                        acc.cls("asymmetric-result")
                    for out in ("coo_matrix", "ndarray"):
                        for cont in ("list", "series_perm"):
                            res = acc.call(pyrepseq.kdtree, box(seqs, cont), k, output_type=out, **kw)
                            bad = check_output(res, out, tset, n, n, True)
                            if bad is not None:
                                acc.fail("kdtree/%s/max_returns/output-%s/%s" % (mode, out, bad[0]), ("maxret", case[1]), expected_matrix(tset, n, n), bad[1], note="max_returns=%d k=%d container=%s" % (m, k, cont))
                                return
                            acc.ok(("mr", m, k, mode, out, tuple(sorted(tset))), nontrivial=bool(tset))
    elif kind == "self1":
        _, eng, seqs, k, mode, out, cont = case
        _one_self(acc, eng, seqs, k, mode, out, cont, expected_for(seqs, k, mode))
    elif kind == "two":
        _, ref, query = case
        combos = [(c, "list") for c in CONTAINERS] + [("list", c) for c in CONTAINERS[1:]] + [("series_perm", "series_perm")]
        for k in (1, 2):
            for mode in MODES:
                expected = expected_for(ref, k, mode, query)
                for eng in TWO_ENG:
                    for out in OUTPUTS:
                        for cr, cq in (combos if mode in ("lev", "hamming") else (combos[:1] + combos[3:6] + combos[-1:] if mode == "halflev" else combos[:1])):
                            _one_two(acc, eng, ref, query, k, mode, out, cr, cq, expected)
        # the progress bar is cosmetics: the same answers for every container of the queries
        acc.cls("progress-bar-with-every-query-container")
        for k in (1, 2):
            expected = expected_for(ref, k, "lev", query)
            for eng in ("symdel2-progress", "SymdelDB-progress", "LookupDB-progress"):
                for out in ("triplets", "ndarray"):
                    for cq in ("list", "ndarray", "series_perm", "series_shift", "series_str"):
                        _one_two(acc, eng, ref, query, k, "lev", out, "series_perm" if cq == "series_perm" else "list", cq, expected)
    elif kind == "wide":
        _, ref, query = case
        acc.cls("more-queries-than-references" if query else "empty-query-collection")
        for k in (1, 2):
            expected = expected_for(ref, k, "lev", query)
            for eng in TWO_ENG:
                for out in ("coo_matrix", "ndarray") + (() if query else ("triplets",)):
                    for cq in (("list",) if query else ("list", "tuple", "ndarray", "series")):
                        _one_two(acc, eng, ref, query, k, "lev", out, "list", cq, expected)
    elif kind == "two1":
        _, eng, ref, query, k, mode, out, cr, cq = case
        _one_two(acc, eng, ref, query, k, mode, out, cr, cq, expected_for(ref, k, mode, query))
    elif kind == "invalid":
        _, name, eng, cont = case
        spec = dict(INVALID)[name]
        seqs = spec.get("seqs", ("AC", "A", "CA"))
        kw = {k: v for k, v in spec.items() if k != "seqs"}
        if kw.get("custom_distance") == "lev":
            from mc.refmodel import ref_lev
            kw["custom_distance"] = ref_lev
        k = kw.pop("max_edits", 1)
        import pyrepseq
        acc.cls("invalid-argument")
        variants = [seqs] + ([("AC",)] if "seqs" not in spec else [])       # the same invalid argument with a lone sequence
        for seqs, hm in [(sv, h) for sv in variants for h in (False, True)]:
            boxed = box(seqs, cont) if cont != "ndarray" or all(isinstance(s, str) for s in seqs) else __import__("numpy").array(list(seqs), dtype=object)
            if len(seqs) == 1:
                acc.cls("invalid-argument-with-a-lone-sequence")
            kw2 = dict(kw)
            if hm:
                if "custom_distance" in kw2:
                    continue
                kw2["custom_distance"] = "hamming"       # the same invalid argument in Hamming mode
            if eng == "symdel2":
                res = acc.call(pyrepseq.symdel, boxed, k, seqs2=["A", "C"], **kw2)
            else:
                res = acc.call(getattr(pyrepseq, eng), boxed, k, **kw2)
            if raised(res):
                acc.ok((eng, name, res.type, hm))
            else:
                acc.fail("%s/invalid-argument-accepted/%s%s%s" % (eng, name, "/hamming-mode" if hm else "", "/lone-sequence" if len(seqs) == 1 else ""), case, "an exception", digest(res) if not hasattr(res, "shape") else "matrix %s" % (res.shape,))
                return
    elif kind == "invalid2":
        _, eng, cont = case
        import pyrepseq
        acc.cls("invalid-argument")
        for bad in ((1, "A"), ("A", None), 5):
            b = bad if not isinstance(bad, tuple) else (list(bad) if cont == "list" else (__import__("numpy").array(list(bad), dtype=object) if cont == "ndarray" else __import__("pandas").Series(list(bad))))
            fn = pyrepseq.symdel if eng == "symdel2" else pyrepseq.nearest_neighbor
            res = acc.call(fn, ["A", "C"], 1, seqs2=b)
            if raised(res):
                acc.ok((eng, "seqs2", res.type))
            else:
                acc.fail("%s/invalid-argument-accepted/seqs2-non-string" % eng, case, "an exception", digest(res))
    else:
        raise HarnessError("unknown case %r" % (case,))


def _cls(acc, out, cont, nrow=None, ncol=None):
    if cont == "series_perm":
        acc.cls("series-permuted-labels")
    elif cont == "series_shift":
        acc.cls("series-shifted-labels")
    if out == "coo_matrix":
        acc.cls("coo-output")
    elif out == "ndarray":
        acc.cls("ndarray-output")
    if nrow is not None and nrow != ncol:
        acc.cls("non-square-matrix")


def _one_self(acc, eng, seqs, k, mode, out, cont, expected):
    n = len(seqs)
    _cls(acc, out, cont)
    res = call_self(acc, eng, box(seqs, cont), k, mode, out)
    bad = check_output(res, out, expected, n, n, True)
    if bad is None:
        acc.ok((eng, k, mode, out, tuple(sorted(expected))), nontrivial=bool(expected))
    else:
        ckind = "container-" + cont if cont != "list" else "output-" + out
        acc.fail("%s/%s/%s/%s" % (eng, mode, ckind, bad[0]), ("self1", eng, seqs, k, mode, out, cont), sorted(expected) if out == "triplets" else expected_matrix(expected, n, n),
                 digest(res) if out == "triplets" else bad[1], note=str(bad)[:200])


def _one_two(acc, eng, ref, query, k, mode, out, cr, cq, expected):
    nrow, ncol = len(ref), len(query)
    _cls(acc, out, cr, nrow, ncol)
    _cls(acc, "", cq)
    res = call_two(acc, eng, box(ref, cr), box(query, cq), k, mode, out)
    if ncol == 0 and raised(res):
        # C10 counts "empty input" among the invalid arguments: refusing an empty batch of queries is as acceptable as answering it
        # (what is judged is that an answer, if given, has the shape (len(ref), 0) and no entries)
        acc.ok((eng, "empty-query-refused"))
        return
    bad = check_output(res, out, expected, nrow, ncol, False)
    if bad is None:
        acc.ok((eng, k, mode, out, tuple(sorted(expected))), nontrivial=bool(expected))
    else:
        ckind = ("container-%s-%s" % (cr, cq)) if (cr, cq) != ("list", "list") else "output-" + out
        acc.fail("%s/%s/%s/%s" % (eng, mode, ckind, bad[0]), ("two1", eng, ref, query, k, mode, out, cr, cq),
                 sorted(expected) if out == "triplets" else expected_matrix(expected, nrow, ncol),
                 digest(res) if out == "triplets" else bad[1], note=str(bad)[:200])
