"""C03 - two-collection search and reusable index objects."""
import itertools
from mc.core import Space, HarnessError, raised
from mc import enum as E
from mc.refmodel import neighbors_within, selfcheck_edit
from mc.nnutil import diagnose, digest

ID = "C03"
RULE = ("(ref, query, k) cases are executed on symdel(seqs2=), nearest_neighbor(seqs2=), SymdelDB.lookup and LookupDB.lookup "
        "and compared with {(q,r,lev(query[q],ref[r])) <= k}; histories are sequences of look-ups on one live index object, "
        "each answer compared with the reference and with a fresh one-shot search, index state canonicalised after every "
        "transition; non-trivial = expected set non-empty")
ASSUMPTIONS = ["an index object may change its internal state on look-ups (e.g. memoisation); only the answers are judged, and the BFS expands every new canonical state (all instance attributes, contents included) up to the depth bound",
               "LookupDB enumerates the 20-letter edit ball: k<=2 only for short strings (cost), k=3 only on U(AC,1)",
               "index state = (variant_dict / seq_dict contents, seqs, max_edits); other attributes do not exist on these classes (checked: vars())"]
REQUIRED_CLASSES = {"all": ["q-equals-r-position-hit", "identical-sequence-d0", "duplicate-in-ref", "duplicate-in-query", "history-step", "same-object-both-sides", "history-changes-max_edits", "progress-option", "max_custom_distance-without-custom-distance", "history-with-failed-lookup", "non-amino-acid-symbols", "more-than-1000-queries", "more-than-500-candidates-per-query", "radius-3-sparse-reference"]}
MIN_OUTCOMES = 10

ENG = ("symdel2", "nn2", "SymdelDB", "LookupDB")
MAXCD = ("symdel2-maxcd", "SymdelDB-maxcd", "LookupDB-maxcd")     # max_custom_distance without a custom distance: documented as ignored
PROGRESS = ("symdel2-progress", "SymdelDB-progress", "LookupDB-progress")      # progress bar on (tqdm silenced by TQDM_DISABLE)
SAME = ("symdel2-same-object", "nn2-same-object")   # the very same list object passed as both collections


def run_engine(acc, eng, ref, query, k):
    import pyrepseq
    from pyrepseq.nn import SymdelDB, LookupDB
    if eng in SAME:
        if tuple(ref) != tuple(query):
            raise HarnessError("same-object engine needs ref == query")
        x = list(ref)
        return acc.call(pyrepseq.symdel if eng.startswith("symdel") else pyrepseq.nearest_neighbor, x, k, seqs2=x)
    if eng == "symdel2":
        return acc.call(pyrepseq.symdel, list(ref), k, seqs2=list(query))
    if eng == "nn2":
        return acc.call(pyrepseq.nearest_neighbor, list(ref), k, seqs2=list(query))
    if eng == "SymdelDB":
        return acc.call(lambda: SymdelDB(list(ref), k).lookup(list(query)))
    if eng == "LookupDB":
        return acc.call(lambda: LookupDB(list(ref)).lookup(list(query), max_edits=k))
    if eng == "SymdelDB-progress":
        return acc.call(lambda: SymdelDB(list(ref), k).lookup(list(query), progress=True))
    if eng == "LookupDB-progress":
        return acc.call(lambda: LookupDB(list(ref)).lookup(list(query), max_edits=k, progress=True))
    if eng == "symdel2-maxcd":
        return acc.call(pyrepseq.symdel, list(ref), k, seqs2=list(query), max_custom_distance=k - 1)
    if eng == "SymdelDB-maxcd":
        return acc.call(lambda: SymdelDB(list(ref), k).lookup(list(query), max_custom_distance=0))
    if eng == "LookupDB-maxcd":
        return acc.call(lambda: LookupDB(list(ref)).lookup(list(query), max_edits=k, max_custom_distance=0.5))
    if eng == "symdel2-progress":
        return acc.call(pyrepseq.symdel, list(ref), k, seqs2=list(query), progress=True)
    raise HarnessError(eng)


QUERIES = (("A",), ("AC", "A"), ("C", "C", ""), ("CA", "AA", "AC"), ("",), ("CC", "A"), ("AC", None, "A"))
BAD_QUERY = 6      # a look-up that fails midway (non-string after one good query): later look-ups must be unaffected
REFS = (("A", "AC", "CA"), ("", "A", "A", "CC"), ("AC",), ("CA", "AC", "AA", "C", ""))


# look-up operations on a live index: (query list, mode, max_edits of this look-up; 0 = the index's own, SymdelDB fixes it at build time)
OPS = {"SymdelDB": [(qi, mode, 0) for qi in range(6) for mode in ("lev", "hamming")] + [(BAD_QUERY, "lev", 0)],
       "LookupDB": [(qi, mode, kk) for qi in range(6) for mode in ("lev", "hamming") for kk in (1, 2)] + [(BAD_QUERY, "lev", 1)]}


def spaces(tier):
    q = tier == "quick"

    def gen_uu():
        for alpha, L in ([("AC", 6), ("ACD", 4)] if q else [("AC", 8), ("ACD", 6)]):
            for k in (1, 2, 3):
                for eng in ("symdel2", "nn2", "SymdelDB"):
                    yield ("uu", alpha, L, k, eng, "fwd")
                yield ("uu", alpha, L, k, "symdel2", "rev")
                yield ("uu", alpha, L, k, "symdel2-same-object", "fwd")
                yield ("uu", alpha, L, k, "nn2-same-object", "fwd")
        # symbols outside the amino-acid alphabet (stop codon, unknown residue, lower case): any string is a legal element for the
        # symdel-based engines (LookupDB enumerates the 20-letter ball by design and is left out)
        for k in (1, 2):
            for eng in ("symdel2", "nn2", "SymdelDB"):
                yield ("uu", "AX*", 3, k, eng, "fwd")
                yield ("few-queries", "Ax*", k, eng)
        for eng in ("symdel2-progress", "SymdelDB-progress", "symdel2", "nn2"):
            yield ("many-queries", 1030, eng)
        for eng in ("symdel2", "nn2", "SymdelDB"):
            for mode in ("lev", "hamming"):
                yield ("scan", eng, mode)
        # sparse references at radius 3 (stepping stones absent; more than five distinct references in range of one query)
        for eng in ("LookupDB", "SymdelDB", "symdel2"):
            yield ("sparse3", eng)
        # LookupDB: ball enumeration over 20 letters is exponential in k
        for alpha, L, k in ([("AC", 4, 1), ("ACD", 3, 1), ("AC", 2, 2), ("AC", 1, 3)] if q else
                            [("AC", 6, 1), ("ACD", 4, 1), ("AC", 3, 2), ("ACD", 2, 2), ("AC", 1, 3)]):
            yield ("uu", alpha, L, k, "LookupDB", "fwd")
            yield ("uu", alpha, L, k, "LookupDB", "rev")

    def gen_rq():
        U = E.universe("AC", 2)
        mr, mq = (3, 2) if q else (4, 2)
        for ref in E.lists(U, mr):
            for query in E.lists(U, mq):
                yield ("rq", ref, query)

    def gen_rq3():
        if q:
            return
        U = E.universe("AC", 2)
        for ref in E.lists(U, 2):
            for query in E.lists(U, 3):
                yield ("rq", ref, query)

    def gen_hist():
        depth = 2 if q else 3
        for kind in ("SymdelDB", "LookupDB"):
            for ri in range(len(REFS)):
                for k in (1, 2) if kind == "SymdelDB" else (0,):
                    for d in range(1, depth + 1):
                        for h in itertools.product(OPS[kind], repeat=d):
                            yield ("hist", kind, ri, k, h)

    def gen_bfs():
        for kind in ("SymdelDB", "LookupDB"):
            for ri in range(len(REFS)):
                for k in (1, 2) if kind == "SymdelDB" else (0,):
                    yield ("bfs", kind, ri, k, 4 if q else 6)

    return [
        Space("universe-x-universe", gen_uu, "ref = query = whole universe in one call (every q==r position coincidence occurs): U(AC,6)/U(ACD,4) quick, U(AC,8)/U(ACD,6) thorough, k in 1..3; LookupDB on smaller universes", per_case=True),
        Space("all-ref-query-lists", gen_rq, "ref in Lists(U(AC,2),3|4) x query in Lists(U(AC,2),2), k in 1..3 (LookupDB k<=2), four engines"),
        Space("all-ref-query-lists-long-query", gen_rq3, "thorough: ref in Lists(U(AC,2),2) x query in Lists(U(AC,2),3)"),
        Space("lookup-histories-no-dedup", gen_hist, "every sequence of 1..2 (quick) / 1..3 (thorough) look-ups from 6 query lists x {levenshtein, hamming} (x max_edits in 1..2 per look-up for LookupDB) on one live SymdelDB (k in 1..2) / LookupDB, 4 reference lists; no state abstraction involved", shards=64),
        Space("lookup-history-bfs", gen_bfs, "BFS over canonical index states, all 12 (SymdelDB) / 24 (LookupDB) look-up operations from every reachable state until closure or depth 4 (quick) / 6 (thorough)", per_case=True),
    ]


def selfcheck(tier):
    selfcheck_edit("AC", 3, 3)


def _classes(acc, ref, query, expected):
    if any(qi == ri for qi, ri, d in expected):
        acc.cls("q-equals-r-position-hit")
    if any(d == 0 for _, _, d in expected):
        acc.cls("identical-sequence-d0")
    if len(set(ref)) < len(ref):
        acc.cls("duplicate-in-ref")
    if len(set(query)) < len(query):
        acc.cls("duplicate-in-query")


def _compare(acc, case, eng, ref, query, k, res, expected, outcome=True):
    bad = diagnose(res, expected, self_mode=False)
    if bad is None:
        acc.ok((eng, digest(res)) if outcome and len(ref) * len(query) <= 64 else (eng, len(res), k), nontrivial=bool(expected))
        return True
    fclass, detail = bad
    key = "%s/levenshtein/%s" % (eng, fclass)
    rcase, rexp, robs = case, sorted(expected)[:20], digest(res)
    if fclass in ("missing", "spurious", "wrong-d") and case[0] in ("uu",) and eng not in SAME:     # a same-object case cannot be cut to one (query, ref) pair
        # shrink to the single offending (query, ref) pair, keeping numerically equal positions when that is the point
        qi, ri = detail[0], detail[1]
        for red_ref, red_q in ([(ref[ri],), (query[qi],)], [tuple(ref[:ri + 1]), tuple(query[:qi + 1])]):
            e2 = neighbors_within(list(red_ref), k, queries=list(red_q))
            r2 = run_engine(acc, eng, red_ref, red_q, k)
            if diagnose(r2, e2, self_mode=False) is not None:
                rcase, rexp, robs = ("rq1", red_ref, red_q, k, eng), sorted(e2), digest(r2)
                break
    acc.fail(key, rcase, rexp, robs if not isinstance(robs, tuple) else robs[:30], note="%s %s" % (fclass, detail))
    return False


def canon_db(db):
    d = vars(db)
    table = d.get("variant_dict", d.get("seq_dict"))
    # any further attribute (e.g. a memo cache added by a refactoring) is part of the state, contents included
    extra = tuple(sorted((k, repr(sorted(d[k].items(), key=repr)) if isinstance(d[k], dict) else repr(d[k])) for k in d if k not in ("variant_dict", "seq_dict", "seqs", "max_edits")))
    return (tuple(sorted((k, tuple(v)) for k, v in table.items())), tuple(d["seqs"]), d.get("max_edits"), extra)


def _mk(kind, ref, k):
    from pyrepseq.nn import SymdelDB, LookupDB
    return SymdelDB(list(ref), k) if kind == "SymdelDB" else LookupDB(list(ref))


def _lookup(acc, kind, db, query, k, mode):
    cd = None if mode == "lev" else "hamming"
    if kind == "SymdelDB":
        return acc.call(db.lookup, list(query), custom_distance=cd)
    return acc.call(db.lookup, list(query), max_edits=k, custom_distance=cd)


def _step_check(acc, case, kind, db, ref, k, op, canon0):
    """one transition on a live index: answer == reference == fresh one-shot; state unchanged."""
    import pyrepseq
    qi, mode, kop = op
    if kop:
        k = kop
    query = QUERIES[qi]
    acc.cls("history-step")
    if qi == BAD_QUERY:
        acc.cls("history-with-failed-lookup")
        res = _lookup(acc, kind, db, query, k, mode)
        if not raised(res):
            acc.fail("%s/history/non-string-query-accepted" % kind, case, "an exception", digest(res))
            return False
        acc.ok((kind, "failed-lookup", res.type))
        return True
    res = _lookup(acc, kind, db, query, k, mode)
    expected = neighbors_within(list(ref), k, queries=list(query), dist="lev" if mode == "lev" else "hamming")
    bad = diagnose(res, expected, self_mode=False)
    if bad is not None:
        acc.fail("%s/history/%s/%s" % (kind, mode, bad[0]), case, sorted(expected)[:20], digest(res), note="after history; %s" % (bad,))
        return False
    fresh = _lookup(acc, kind, _mk(kind, ref, k), query, k, mode)
    if digest(fresh) != digest(res):
        acc.fail("%s/history/%s/differs-from-fresh" % (kind, mode), case, digest(fresh), digest(res))
        return False
    oneshot = acc.call(pyrepseq.symdel, list(ref), k, seqs2=list(query), custom_distance=None if mode == "lev" else "hamming")
    if digest(oneshot) != digest(res):
        acc.fail("%s/history/%s/differs-from-one-shot-symdel" % (kind, mode), case, digest(oneshot), digest(res))
        return False
    if canon_db(db) != canon0:
        acc.cls("lookup-changed-index-state")     # not a violation by itself (a correct memo cache is fine): only answers are judged
    acc.ok((kind, mode, digest(res)), nontrivial=bool(expected))
    return True


def check_case(case, acc):
    kind = case[0]
    if kind == "uu":
        _, alpha, L, k, eng, order = case
        U = E.universe(alpha, L)
        ref = U if order == "fwd" else U[::-1]
        query = U
        expected = neighbors_within(ref, k, queries=query)
        acc.extra["pairs_decided"] += len(ref) * len(query)
        _classes(acc, ref, query, expected)
        _compare(acc, case, eng, ref, query, k, run_engine(acc, eng, ref, query, k), expected)
    elif kind == "many-queries":
        # more than 1000 queries (hits before and after position 999) against a small reference
        _, n, eng = case
        acc.cls("more-than-1000-queries")
        query, pos = E.size_family(n, marks=(256, 1000, 1024))
        ref = [query[pos[0]], E.filler(5), query[pos[-1]][:6] + "A" + query[pos[-1]][7:], query[n // 2]]
        expected = neighbors_within(ref, 1, queries=query)
        _compare(acc, case, eng, ref, query, 1, run_engine(acc, eng, ref, query, 1), expected, outcome=False)
    elif kind == "scan":
        # a mutational scan as reference: every substitution, insertion and deletion of one 13-mer over the 20 letters
        # (> 500 candidate positions for the wild type), queried in both distance modes
        _, eng, mode = case
        from mc.refmodel import ref_ball
        import pyrepseq
        from pyrepseq.nn import SymdelDB
        acc.cls("more-than-500-candidates-per-query")
        wt = "CASSLGQAYEQYF"
        ref = sorted(ref_ball(wt, "ACDEFGHIKLMNPQRSTVWY", 1))
        query = [wt, wt + "A", wt[1:], "CASSLGQAYEQYW"]
        cd = None if mode == "lev" else "hamming"
        expected = neighbors_within(ref, 1, queries=query, dist="lev" if mode == "lev" else "hamming")
        if eng == "SymdelDB":
            res = acc.call(lambda: SymdelDB(list(ref), 1).lookup(list(query), custom_distance=cd))
        else:
            res = acc.call(pyrepseq.symdel if eng == "symdel2" else pyrepseq.nearest_neighbor, list(ref), 1, custom_distance=cd, seqs2=list(query))
        bad = diagnose(res, expected, self_mode=False)
        if bad is not None:
            acc.fail("%s/%s/mutational-scan-reference/%s" % (eng, mode, bad[0]), case, len(expected), digest(res)[:10] if not isinstance(digest(res), str) else digest(res), note=str(bad)[:200])
        else:
            acc.ok((eng, mode, len(expected)), nontrivial=True)
    elif kind == "sparse3":
        eng = case[1]
        acc.cls("radius-3-sparse-reference")
        for ref, query in (((""," A".strip(), "C", "AD", "CC", "ACD", "ACDE", "WWWWW", "AC"), ("AC", "WWW")), (("ACD", "EFG", "WW"), ("EFG", "AFD", "W")), (("C", "A"), ("ACD", "CCCC"))):
            for k in (3, 2):
                expected = neighbors_within(list(ref), k, queries=list(query))
                if not _compare(acc, ("rq1", tuple(ref), tuple(query), k, eng), eng, list(ref), list(query), k, run_engine(acc, eng, list(ref), list(query), k), expected):
                    return
    elif kind == "few-queries":
        # fewer queries than references, non-standard symbols on the reference side
        _, alpha, k, eng = case
        ref = E.universe(alpha, 3)
        acc.cls("non-amino-acid-symbols")
        for query in (("A",), ("AA", "x"), ("A*", "", "Ax")):
            expected = neighbors_within(ref, k, queries=list(query))
            if not _compare(acc, ("rq1", tuple(ref), query, k, eng), eng, ref, query, k, run_engine(acc, eng, ref, query, k), expected):
                return
    elif kind == "rq1":
        _, ref, query, k, eng = case
        expected = neighbors_within(list(ref), k, queries=list(query))
        _compare(acc, case, eng, ref, query, k, run_engine(acc, eng, ref, query, k), expected)
    elif kind == "rq":
        _, ref, query = case
        for k in (1, 2, 3):
            expected = neighbors_within(list(ref), k, queries=list(query))
            _classes(acc, ref, query, expected)
            for eng in ENG + (SAME if tuple(ref) == tuple(query) else ()) + (PROGRESS if k == 1 else ()) + (MAXCD if k <= 2 else ()):
                if eng.startswith("LookupDB") and k == 3:
                    continue
                if eng in PROGRESS:
                    acc.cls("progress-option")
                if eng in MAXCD:
                    acc.cls("max_custom_distance-without-custom-distance")
                if eng in SAME:
                    acc.cls("same-object-both-sides")
                _compare(acc, ("rq1", ref, query, k, eng), eng, ref, query, k, run_engine(acc, eng, ref, query, k), expected)
    elif kind == "hist":
        _, dbk, ri, k, h = case
        ref = REFS[ri]
        db = _mk(dbk, ref, k or 1)
        acc.transitions += 1
        c0 = canon_db(db)
        if len({o[2] for o in h}) > 1:
            acc.cls("history-changes-max_edits")
        for op in h:
            if not _step_check(acc, case, dbk, db, ref, k, op, c0):
                break
    elif kind == "bfs":
        _, dbk, ri, k, maxdepth = case
        ref = REFS[ri]
        ops = OPS[dbk]
        # a state is the history that reaches it; build() replays it on a fresh real object
        def build(hist):
            db = _mk(dbk, ref, k or 1)
            for qi, mode, kop in hist:
                _lookup(acc, dbk, db, QUERIES[qi], kop or k, mode)     # failing look-ups are part of a history
            return db
        c0 = canon_db(build(()))
        seen = {c0}
        frontier = [()]
        depth = 0
        ntrans = 0
        while frontier and depth < maxdepth:
            nxt = []
            for hist in frontier:
                for op in ops:
                    db = build(hist)
                    cpre = canon_db(db)
                    okk = _step_check(acc, ("hist", dbk, ri, k, hist + (op,)), dbk, db, ref, k, op, cpre)
                    ntrans += 1
                    c = canon_db(db)
                    if c not in seen:
                        seen.add(c)
                        nxt.append(hist + (op,))
                    if not okk:
                        return
            frontier = nxt
            depth += 1
        acc.extra["bfs_states"] += len(seen)
        acc.extra["bfs_transitions"] += ntrans
        if frontier:
            acc.caps.append("bfs depth bound %d reached with %d open states (%s ref %d k %d)" % (maxdepth, len(frontier), dbk, ri, k))
        acc.extra["bfs_max_states_per_index"] = max(acc.extra["bfs_max_states_per_index"], len(seen))
    else:
        raise HarnessError("unknown case %r" % (case,))
