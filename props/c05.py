"""C05 - pcDelta is the exact histogram of all pairwise distances."""
import itertools
import math
from fractions import Fraction
from mc.core import Space, HarnessError, raised, jsonable
from mc import enum as E
from mc.refmodel import ref_lev, ref_wlev, ref_hist, ref_pc, ref_pc2, feq
from mc.seams import explore_choices, rng_seam

ID = "C05"
RULE = ("core lists x the full option product (bins x normalize x pseudocount x metric x second collection) and extended lists / TCR "
        "tables x an option star are executed on pcDelta and compared bin by bin with an own half-open/last-closed histogram of own "
        "pairwise distances; maxseqs runs under the RNG seam: every subset numpy may draw is enumerated and the result must equal "
        "pcDelta of exactly that sub-sample; non-trivial = at least one pair falls into a bin")
ASSUMPTIONS = ["rapidfuzz.process.cdist(workers=-1) is answered with one thread in the bulk spaces (thread-count seam); the space free-running-rapidfuzz-threads runs the untouched function",
               "edge vectors drawn from {0,0.5,1,2,3[,4]}; pseudocounts {0,0.5,1}",
               "normalised results compared to 1e-12; raw counts compared exactly"]
REQUIRED_CLASSES = {"all": ["value-on-last-edge", "value-on-inner-edge", "total-zero-normalised", "pseudocount>0", "second-collection", "tcr-table-default-metric",
                            "maxseqs-downsampled", "bins=0", "asymmetric-metric", "legacy-tuple", "free-running-threads", "default-bins-boundary", "tcr-table-distances-beyond-25", "tcr-two-independent-tables", "normalize-spelled-0-1-numpy-bool"]}
MIN_OUTCOMES = 10
SINGLE_THREAD_RAPIDFUZZ = True

EDGE_POOL_Q = (0, 0.5, 1, 2, 3)
EDGE_POOL_T = (0, 0.5, 1, 2, 3, 4)
METRICS = ("default", "Levenshtein", "WLev123", "LenDiff")
NP = ((False, 0), (False, 0.5), (True, 0), (True, 0.5), (True, 1))     # raw counts must stay raw counts whatever the pseudocount
CD = ("CA", "CS", "AS")   # two-letter CDR3 alphabet for the tables


def edge_vectors(pool):
    out = []
    for r in range(2, len(pool) + 1):
        out.extend(itertools.combinations(pool, r))
    return out


def get_metric(name):
    import numpy as np
    from pyrepseq.metric import Metric, Levenshtein, WeightedLevenshtein
    if name == "default":
        return None
    if name == "Levenshtein":
        return Levenshtein()
    if name == "WLev123":
        return WeightedLevenshtein(1, 2, 3)

    class LenDiff(Metric):
        # a memoising metric whose truth value is False while its memo is empty: "all Metric objects" includes those
        name = "lendiff"

        def __len__(self):
            return 0

        def calc_cdist_matrix(self, A, B):
            return np.array([[abs(len(a) - len(b)) for b in B] for a in A]).reshape(len(A), len(B))

        def calc_pdist_vector(self, X):
            X = list(X)
            return np.array([abs(len(X[i]) - len(X[j])) for i in range(len(X)) for j in range(i + 1, len(X))])
    return LenDiff()


def ref_dist(name, a, b):
    if name in ("default", "Levenshtein"):
        return ref_lev(a, b)
    if name == "WLev123":
        return ref_wlev(a, b, 1, 2, 3)
    return abs(len(a) - len(b))


def ref_values(name, seqs, seqs2):
    if seqs2 is None:
        return [ref_dist(name, seqs[i], seqs[j]) for i in range(len(seqs)) for j in range(i + 1, len(seqs))]
    return [ref_dist(name, a, b) for a in seqs for b in seqs2]


def expected(values, edges, normalize, pc):
    counts = ref_hist(values, edges)
    if not normalize:
        return counts           # the pseudocount only enters the normalised form
    tot = sum(counts)
    if not pc:
        return [c / tot if tot else float("nan") for c in counts]
    return [(c + pc) / (tot + 2 * pc) for c in counts]


def same_(obs, exp, normalize):
    return same(obs, exp, normalize)


def same(obs, exp, normalize):
    import numpy as np
    if raised(obs):
        return False
    try:
        o = np.asarray(obs)
        if o.shape != (len(exp),):
            return False
        o = o.tolist()
    except Exception:
        return False
    if not normalize:
        return all(float(x) == float(y) for x, y in zip(o, exp))
    return all(feq(x, y) for x, y in zip(o, exp))


def spell_bins(edges, form):
    import numpy as np
    if form == "list":
        return list(edges)
    if form == "tuple":
        return tuple(edges)
    if form == "ndarray":
        return np.array(edges)
    if form == "range":
        return range(int(edges[0]), int(edges[-1]) + 1)
    raise HarnessError(form)


def spaces(tier):
    q = tier == "quick"
    U2 = E.universe("AB", 2)
    S2 = [None] + list(E.lists(E.universe("AB", 1), 2))

    def gen_prod():
        for seqs in E.lists(U2, 2 if q else 3, minlen=2):
            for si in range(len(S2) if not q else 7):
                yield ("prod", seqs, si)

    def gen_star():
        S2x = [None] + list(E.lists(U2, 2))
        for seqs in E.lists(U2, 3 if q else 4, minlen=2):
            yield ("star", seqs)

    def gen_tables():
        rows = list(itertools.product(range(3), range(3)))
        for n in ((2, 3) if q else (2, 3, 4)):
            for tab in itertools.product(rows, repeat=n):
                if n == 4 and sum(a * 3 + b for a, b in tab) % 9 != 0:
                    continue
                yield ("table", tab)

    def gen_maxseqs():
        for seqs in E.lists(E.universe("AB", 1), 4, minlen=2):
            yield ("maxseqs", seqs)
        rows = [(0, 0), (0, 1), (1, 1), (2, 0)]
        for n in (2, 3, 4):
            for tab in itertools.combinations_with_replacement(rows, n):
                yield ("maxseqs-table", tab)

    def gen_bg():
        yield ("background",)
        for n in (22, 23, 24, 25, 26):
            yield ("default-bins", n)
        for n in (25, 27, 52, 60):
            yield ("tcr-long", n)
        for N in (999, 1000, 1001, 2000, 1024):
            yield ("rows-boundary", N)

    def gen_free():
        for seqs in E.lists(U2, 2, minlen=2):
            yield ("free", seqs)

    return [
        Space("core-lists-x-full-option-product", gen_prod, "seqs in Lists(U(AB,2),2|3), N>=2, x seqs2 in {None}+Lists(U(AB,1),2) x every edge vector from %s (thorough %s) x (normalize,pseudocount) in %s x 4 metrics" % (EDGE_POOL_Q, EDGE_POOL_T, NP), shards=64),
        Space("extended-lists-x-option-star", gen_star, "seqs in Lists(U(AB,2),3|4) x seqs2 in {None}+Lists(U(AB,2),2), each option varied alone from the default (incl. bins spelled as list/tuple/ndarray/range, bins=0, bins=None)", shards=64),
        Space("tcr-tables", gen_tables, "tables of 2..3(4) rows over 3x3 two-letter CDR3s, column sets {CDR3A},{CDR3B},{CDR3A,CDR3B}(+extra column, shifted index), legacy tuple form; default metric", shards=32),
        Space("maxseqs-rng-seam", gen_maxseqs, "lists of 2..4 strings over U(AB,1) and tables of 2..4 rows x maxseqs in {1,2,N-1,N,N+1} x seqs2; every subset the RNG can return"),
        Space("free-running-rapidfuzz-threads", gen_free, "Lists(U(AB,2),2) x 2 second collections x 4 metrics x 4 normalisations with rapidfuzz's own thread pool (workers=-1) untouched"),
        Space("background-table", gen_bg, "load_pcDelta_background (single deterministic case); default bins (None) on string families with distances of exactly 22..26; first collections of 999..1001, 1024, 2000 rows as raw counts", per_case=True),
    ]


def _one(acc, seqs, seqs2, mname, edges, form, normalize, pc, values=None):
    import pyrepseq
    if values is None:
        values = ref_values(mname, seqs, seqs2)
    exp = expected(values, edges, normalize, pc)
    kw = dict(bins=spell_bins(edges, form), normalize=normalize, pseudocount=pc)
    m = get_metric(mname)
    if m is not None:
        kw["metric"] = m
    r = acc.call(pyrepseq.pcDelta, list(seqs), None if seqs2 is None else list(seqs2), **kw)
    # classes
    if values:
        if any(v == edges[-1] for v in values):
            acc.cls("value-on-last-edge")
        if any(v in edges[1:-1] for v in values):
            acc.cls("value-on-inner-edge")
    if normalize and not pc and sum(ref_hist(values, edges)) == 0:
        acc.cls("total-zero-normalised")
    if pc:
        acc.cls("pseudocount>0")
    if seqs2 is not None:
        acc.cls("second-collection")
    if mname == "WLev123":
        acc.cls("asymmetric-metric")
    if same(r, exp, normalize):
        acc.ok((mname, edges, normalize, pc, tuple(exp) if not normalize else None), nontrivial=sum(ref_hist(values, edges)) > 0)
        return True
    what = "two-collections" if seqs2 is not None else "one-collection"
    opt = "raw" if not normalize else ("normalised" if not pc else "pseudocount")
    acc.fail("pcDelta/%s/%s/%s/%s" % (what, mname, opt, "raised-" + r.type if raised(r) else "histogram"),
             ("one", tuple(seqs), None if seqs2 is None else tuple(seqs2), mname, tuple(edges), form, normalize, pc), exp, r)
    return False


def check_case(case, acc):
    import numpy as np
    import pandas as pd
    import pyrepseq
    kind = case[0]
    if kind == "prod":
        _, seqs, si = case
        S2 = [None] + list(E.lists(E.universe("AB", 1), 2))
        seqs2 = S2[si]
        pool = EDGE_POOL_Q if _tier() == "quick" else EDGE_POOL_T
        for mname in METRICS:
            values = ref_values(mname, seqs, seqs2)
            for edges in edge_vectors(pool):
                for normalize, pc in NP:
                    if not _one(acc, seqs, seqs2, mname, edges, "list", normalize, pc, values):
                        return
    elif kind == "one":
        _, seqs, seqs2, mname, edges, form, normalize, pc = case
        _one(acc, seqs, seqs2, mname, edges, form, normalize, pc)
    elif kind == "free":
        from mc.seams import free_threads
        with free_threads():
            acc.cls("free-running-threads")
            for seqs2 in (None, ("A", "B", "")):
                for mname in METRICS:
                    for normalize, pc in NP:
                        _one(acc, case[1], seqs2, mname, (0, 1, 2, 3), "list", normalize, pc)
    elif kind == "star":
        seqs = case[1]
        S2x = [None] + list(E.lists(E.universe("AB", 2), 2))
        dflt = dict(mname="default", edges=(0, 1, 2, 3), form="list", normalize=True, pc=0)
        for seqs2 in S2x:
            variants = [dflt]
            variants += [dict(dflt, mname=m) for m in METRICS[1:]]
            variants += [dict(dflt, edges=e) for e in ((0, 1), (1, 2, 3), (0, 0.5, 1), (0, 2), (0, 1, 2, 3, 4), (2, 3))]
            variants += [dict(dflt, form=f) for f in ("tuple", "ndarray", "range")]
            variants += [dict(dflt, normalize=False), dict(dflt, pc=0.5), dict(dflt, pc=1)]
            for v in variants:
                if not _one(acc, seqs, seqs2, v["mname"], v["edges"], v["form"], v["normalize"], v["pc"]):
                    return
            # the flag given as 0 / 1 / numpy.bool_ (the result of a numpy comparison) means the same as False / True
            acc.cls("normalize-spelled-0-1-numpy-bool")
            import numpy as np
            vals_ = ref_values("default", seqs, seqs2)
            for spell, val in (("0", 0), ("numpy.False_", np.False_), ("1", 1), ("numpy.True_", np.True_)):
                r = acc.call(pyrepseq.pcDelta, list(seqs), None if seqs2 is None else list(seqs2), bins=[0, 1, 2, 3], normalize=val, pseudocount=0.5)
                e = expected(vals_, (0, 1, 2, 3), bool(val), 0.5)
                if not same(r, e, bool(val)):
                    acc.fail("pcDelta/normalize-spelled/%s" % spell, ("star-norm", seqs, seqs2, spell), e, r)
                    return
                acc.ok()
            if seqs2 is None:
                # the very same list object as both collections: all N*N cross pairs, diagonal included
                same_obj = list(seqs)
                r = acc.call(pyrepseq.pcDelta, same_obj, same_obj, bins=[0, 1, 2, 3], normalize=False)
                e = ref_hist(ref_values("default", seqs, seqs), [0, 1, 2, 3])
                if not same_(r, e, False):
                    acc.fail("pcDelta/two-collections/same-object", ("star1", seqs, None), e, r)
                    return
                acc.ok()
            # bins = 0 -> pc of the same arguments; bins = None -> range(0, 25)
            acc.cls("bins=0")
            r = acc.call(pyrepseq.pcDelta, list(seqs), None if seqs2 is None else list(seqs2), bins=0)
            e = ref_pc(seqs) if seqs2 is None else ref_pc2(seqs, seqs2)
            if raised(r) or float(r) != float(e):
                acc.fail("pcDelta/bins=0", ("star1", seqs, seqs2), e, r)
                return
            acc.ok(("bins0", float(e)))
            # ... whatever the histogram options are
            for kw0 in (dict(normalize=False), dict(pseudocount=0.5), dict(normalize=False, pseudocount=1)):
                r = acc.call(pyrepseq.pcDelta, list(seqs), None if seqs2 is None else list(seqs2), bins=0, **kw0)
                if raised(r) or np.ndim(r) != 0 or float(r) != float(e):
                    acc.fail("pcDelta/bins=0/with-histogram-options", ("star1", seqs, seqs2), e, r, note=str(kw0))
                    return
            acc.ok()
            r = acc.call(pyrepseq.pcDelta, list(seqs), None if seqs2 is None else list(seqs2), normalize=False)
            e = ref_hist(ref_values("default", seqs, seqs2), list(range(25)))
            if not same(r, e, False):
                acc.fail("pcDelta/default-bins", ("star1", seqs, seqs2), e, r)
                return
            acc.ok()
    elif kind in ("star1", "star-norm"):
        check_case(("star", tuple(case[1])), acc)
    elif kind == "table2":
        _check_table(acc, ("table", tuple(tuple(r) for r in case[1])))
    elif kind == "table":
        _check_table(acc, case)
    elif kind == "maxseqs":
        _check_maxseqs(acc, case)
    elif kind == "maxseqs-table":
        _check_maxseqs_table(acc, case)
        if len(case[1]) >= 3:
            _check_maxseqs_tuple(acc, case)
    elif kind == "background":
        _check_background(acc, case)
    elif kind == "tcr-long":
        # TCR tables whose CDR3s are up to n edits apart, binned with edges beyond the metric classes' own plotting range
        n = case[1]
        acc.cls("tcr-table-distances-beyond-25")
        import pandas as pd
        A = ["C" + "A" * (n - 1), "", "C" + "S" * (n - 1), "CAS"]
        B = ["CASSF", "C" + "Q" * (n - 1), "", "CASSF"]
        edges = list(range(0, 2 * n + 3))
        for name, df, vals in (("alpha", pd.DataFrame({"CDR3A": A}), [ref_lev(A[i], A[j]) for i in range(4) for j in range(i + 1, 4)]),
                               ("beta", pd.DataFrame({"CDR3B": B}), [ref_lev(B[i], B[j]) for i in range(4) for j in range(i + 1, 4)]),
                               ("both", pd.DataFrame({"CDR3A": A, "CDR3B": B}), [ref_lev(A[i], A[j]) + ref_lev(B[i], B[j]) for i in range(4) for j in range(i + 1, 4)])):
            r = acc.call(pyrepseq.pcDelta, df, bins=edges, normalize=False)
            e = expected(vals, edges, False, 0)
            if not same(r, e, False):
                acc.fail("pcDelta/tcr-table/%s/long-cdr3" % name, case, e, r, note="distances %s" % sorted(vals))
                return
            acc.ok((name, n, tuple(vals)), nontrivial=True)
    elif kind == "rows-boundary":
        # first collections of exactly / around 1000 and 2000 elements (round block sizes) against a small second one, as raw
        # counts: the histogram is known from the multiplicities of the 7 distinct strings
        N = case[1]
        acc.cls("first-collection-of-about-1000-rows")
        U = ["CASSF", "CASSLF", "CAF", "CASSLGF", "", "CASSF", "WWWWWWW"]
        seqs = [U[(i * 3 + i // 7) % 7] for i in range(N)]
        seqs2 = ["CASSF", "CAF", "CASSLGQQF"]
        mult = {u: seqs.count(u) for u in set(seqs)}
        edges = list(range(0, 12))
        cross = [0] * (len(edges) - 1)
        for u, m in mult.items():
            for v in seqs2:
                for b, c in enumerate(ref_hist([ref_lev(u, v)], edges)):
                    cross[b] += c * m
        import pandas as pd
        for form in ("list", "table"):
            a = list(seqs) if form == "list" else pd.DataFrame({"CDR3B": seqs})
            b = list(seqs2) if form == "list" else pd.DataFrame({"CDR3B": seqs2})
            for normalize, pcnt in ((False, 0), (True, 0.5), (True, 0)):
                r = acc.call(pyrepseq.pcDelta, a, b, bins=edges, normalize=normalize, pseudocount=pcnt)
                e = cross if not normalize else [(c + pcnt) / (sum(cross) + 2 * pcnt) for c in cross]
                if not same(r, e, normalize):
                    acc.fail("pcDelta/two-collections/rows-boundary/%s" % ("raw" if not normalize else "normalised"), case, e, r, note="%s, pseudocount=%r" % (form, pcnt))
                    return
            # and the one-collection form of the same list
            if form == "list":
                within = [0] * (len(edges) - 1)
                us = sorted(mult)
                for i, u in enumerate(us):
                    for b, c in enumerate(ref_hist([0], edges)):
                        within[b] += c * mult[u] * (mult[u] - 1) // 2
                    for v in us[i + 1:]:
                        for b, c in enumerate(ref_hist([ref_lev(u, v)], edges)):
                            within[b] += c * mult[u] * mult[v]
                r = acc.call(pyrepseq.pcDelta, a, bins=edges, normalize=False)
                if not same(r, within, False):
                    acc.fail("pcDelta/one-collection/rows-boundary/raw", case, within, r)
                    return
            acc.ok(("rows", N, form, tuple(cross)), nontrivial=True)
    elif kind == "default-bins":
        # default bins are range(0, 25): 24 bins, the last one closed ([23, 24]); distances of exactly n occur in this family
        n = case[1]
        acc.cls("default-bins-boundary")
        seqs = ["A" * n, "C" * n, "", "A" * (n - 1), "A" * (n + 1), "AC"]
        for seqs2 in (None, ["", "C" * n, "A"]):
            for normalize in (False, True):
                values = ref_values("default", seqs, seqs2)
                exp = expected(values, list(range(25)), normalize, 0)
                r = acc.call(pyrepseq.pcDelta, list(seqs), None if seqs2 is None else list(seqs2), normalize=normalize)
                if not same(r, exp, normalize):
                    acc.fail("pcDelta/default-bins/boundary", case, exp, r, note="distances %s" % sorted(set(values)))
                    return
                acc.ok(("dflt", n, normalize, tuple(ref_hist(values, list(range(25))))), nontrivial=True)
    else:
        raise HarnessError("unknown case %r" % (case,))


TIER = "quick"


def _tier():
    return TIER


def _check_table(acc, case):
    import pandas as pd
    import pyrepseq
    tab = case[1]
    A = [CD[a] for a, b in tab]
    B = [CD[b] + "F" * a for a, b in tab]   # beta differs in length from alpha so that swapping chains is observable
    n = len(tab)
    edges = [0, 1, 2, 3, 4]
    variants = {
        "alpha": (pd.DataFrame({"CDR3A": A}), [ref_lev(A[i], A[j]) for i in range(n) for j in range(i + 1, n)]),
        "beta": (pd.DataFrame({"CDR3B": B}), [ref_lev(B[i], B[j]) for i in range(n) for j in range(i + 1, n)]),
        "both": (pd.DataFrame({"CDR3A": A, "CDR3B": B}), [ref_lev(A[i], A[j]) + ref_lev(B[i], B[j]) for i in range(n) for j in range(i + 1, n)]),
        "both+extra+shifted": (pd.DataFrame({"x": list(range(n)), "CDR3B": B, "TRBV": ["TRBV2*01"] * n, "CDR3A": A}, index=range(3, 3 + n)),
                               [ref_lev(A[i], A[j]) + ref_lev(B[i], B[j]) for i in range(n) for j in range(i + 1, n)]),
    }
    for name, (df, values) in variants.items():
        acc.cls("tcr-table-default-metric")
        for normalize in (False, True):
            exp = expected(values, edges, normalize, 0)
            r = acc.call(pyrepseq.pcDelta, df, bins=edges, normalize=normalize)
            if not same(r, exp, normalize):
                acc.fail("pcDelta/tcr-table/%s/%s" % (name, "raised-" + r.type if raised(r) else "histogram"), case, exp, r, note=name)
                return
            acc.ok((name, tuple(exp)), nontrivial=sum(ref_hist(values, edges)) > 0)
        # two tables
        df2 = df.iloc[::-1]
        if name == "both":
            v2 = [ref_lev(A[i], A[j]) + ref_lev(B[i], B[j]) for i in range(n) for j in reversed(range(n))]
            r = acc.call(pyrepseq.pcDelta, df, df2, bins=edges, normalize=False)
            exp = expected(v2, edges, False, 0)
            if not same(r, exp, False):
                acc.fail("pcDelta/tcr-table/two-tables", case, exp, r)
                return
            acc.ok()
            # bins=0 on tables == pc of rows
            r = acc.call(pyrepseq.pcDelta, df, bins=0)
            e = ref_pc(list(zip(A, B)))
            if raised(r) or float(r) != float(e):
                acc.fail("pcDelta/tcr-table/bins=0", case, e, r)
                return
            acc.ok()
    # an independent second table: first row equal to the first table's first row (or last), second row free - a shortcut that
    # looks only at the first row of the comparison table, or at a chain that is constant in one table, shows up here
    if n <= 3:
        acc.cls("tcr-two-independent-tables")
        rows = list(itertools.product(range(3), range(3)))
        seconds = [(tab[0], r) for r in rows] + [(r, tab[0]) for r in rows if r != tab[0]]
        for tab2 in seconds:
            A2 = [CD[a] for a, b in tab2]
            B2 = [CD[b] + "F" * a for a, b in tab2]
            for cols in (("CDR3A",), ("CDR3B",), ("CDR3A", "CDR3B")):
                d1 = pd.DataFrame({"CDR3A": A, "CDR3B": B})[list(cols)]
                d2 = pd.DataFrame({"CDR3A": A2, "CDR3B": B2})[list(cols)]
                v = [(ref_lev(A[i], A2[j]) if "CDR3A" in cols else 0) + (ref_lev(B[i], B2[j]) if "CDR3B" in cols else 0)
                     for i in range(n) for j in range(2)]
                r = acc.call(pyrepseq.pcDelta, d1, d2, bins=edges, normalize=False)
                e = expected(v, edges, False, 0)
                if not same(r, e, False):
                    acc.fail("pcDelta/tcr-table/two-independent-tables/%s" % "+".join(cols), ("table2", tab, tab2, cols), e, r)
                    return
                acc.ok(("2tab", cols, tuple(e)), nontrivial=True)
    # legacy tuple form == both
    acc.cls("legacy-tuple")
    values = variants["both"][1]
    r = acc.call(pyrepseq.pcDelta, (A, B), bins=edges, normalize=False)
    exp = expected(values, edges, False, 0)
    if not same(r, exp, False):
        acc.fail("pcDelta/legacy-tuple", case, exp, r)
        return
    acc.ok()
    # the legacy tuple is (alpha, beta): a chain-specific metric must see the right chain
    from pyrepseq.metric.tcr_metric import AlphaCdr3Levenshtein, BetaCdr3Levenshtein
    for mcls, seqs_ in ((AlphaCdr3Levenshtein, A), (BetaCdr3Levenshtein, B)):
        r = acc.call(pyrepseq.pcDelta, (A, B), metric=mcls(), bins=edges, normalize=False)
        e = expected([ref_lev(seqs_[i], seqs_[j]) for i in range(n) for j in range(i + 1, n)], edges, False, 0)
        if not same(r, e, False):
            acc.fail("pcDelta/legacy-tuple/chain-specific-metric", case, e, r, note=mcls.__name__)
            return
        acc.ok()
    # the two chains as Series from differently indexed tables: paired by position
    r = acc.call(pyrepseq.pcDelta, (pd.Series(A, index=range(n)), pd.Series(B, index=range(n - 1, -1, -1))), bins=edges, normalize=False)
    if not same(r, exp, False):
        acc.fail("pcDelta/legacy-tuple-of-series", case, exp, r)
        return
    acc.ok()


def _check_maxseqs(acc, case):
    import pyrepseq
    seqs = list(case[1])
    N = len(seqs)
    edges = [0, 1, 2]
    for seqs2 in (None, ["A", "B", ""]):
        for m in sorted({1, 2, N - 1, N, N + 1}):
            if m < 1:
                continue
            holder = {}

            def run(ch):
                with rng_seam(ch) as seam:
                    r = acc.call(pyrepseq.pcDelta, list(seqs), None if seqs2 is None else list(seqs2), bins=edges, normalize=False, maxseqs=m)
                    holder["log"] = list(seam.log)
                    holder["prob"] = seam.prob
                return r

            total = Fraction(0)
            nexec = 0
            outcomes = {}
            for choices, r in explore_choices(run):
                nexec += 1
                log = holder["log"]
                total += holder["prob"]
                exp_calls = (1 if N > m else 0) + (1 if seqs2 is not None and len(seqs2) > m else 0)
                if len(log) != exp_calls or any(l[0] != "choice" or l[3] for l in log):
                    acc.fail("pcDelta/maxseqs/rng-usage", ("maxseqs", tuple(seqs)), "%d draw(s) without replacement" % exp_calls, log)
                    return
                if raised(r):
                    # a sub-sample of size 1 has no pairs: histogram of nothing is all zeros, not an exception
                    acc.fail("pcDelta/maxseqs/raised-%s" % r.type, ("maxseqs", tuple(seqs)), "a histogram", r, note="m=%d seqs2=%r choices=%r" % (m, seqs2, choices))
                    return
                outcomes[tuple(int(x) for x in r)] = outcomes.get(tuple(int(x) for x in r), 0) + holder["prob"]
                want = ([(N, min(N, m))] if N > m else []) + ([(len(seqs2), m)] if seqs2 is not None and len(seqs2) > m else [])
                if N > m:
                    acc.cls("maxseqs-downsampled")
                if [(l[1], l[2]) for l in log] != want:
                    acc.fail("pcDelta/maxseqs/sample-size", ("maxseqs", tuple(seqs)), want, log)
                    return
            # every answer of the RNG: the result must be the histogram of exactly that sub-sample -> checked through the
            # exact output distribution: P(result = h) must equal the probability that a uniformly drawn subset gives h
            expd = {}
            subs1 = list(itertools.combinations(range(N), min(N, m)))
            subs2 = [None] if seqs2 is None else list(itertools.combinations(range(len(seqs2)), min(len(seqs2), m)))
            for s1 in subs1:
                for s2 in subs2:
                    a = [seqs[i] for i in s1]
                    b = None if s2 is None else [seqs2[i] for i in s2]
                    h = tuple(ref_hist(ref_values("default", a, b), edges))
                    expd[h] = expd.get(h, 0) + Fraction(1, len(subs1) * len(subs2))
            if total != 1:
                raise HarnessError("RNG seam probabilities sum to %s" % total)
            if outcomes != expd:
                acc.fail("pcDelta/maxseqs/distribution", ("maxseqs", tuple(seqs)), {str(k): str(v) for k, v in expd.items()}, {str(k): str(v) for k, v in outcomes.items()}, note="m=%d seqs2=%r" % (m, seqs2))
                return
            acc.extra["rng_answers"] += nexec
            acc.ok((tuple(seqs), m, tuple(sorted(outcomes))), nontrivial=N > m)


def _check_maxseqs_tuple(acc, case):
    """legacy (alphas, betas) tuple with maxseqs: a sub-sample of exactly min(N, maxseqs) paired rows"""
    import pyrepseq
    tab = case[1]
    A = [CD[a] for a, b in tab]
    B = [CD[b] for a, b in tab]
    N = len(tab)
    edges = [0, 1, 2, 3]
    for m in sorted({1, 2, N - 1, N, N + 1}):
        if m < 1:
            continue
        holder = {}

        def run(ch):
            with rng_seam(ch) as seam:
                r = acc.call(pyrepseq.pcDelta, (list(A), list(B)), bins=edges, normalize=False, maxseqs=m)
                holder["prob"] = seam.prob
            return r
        outcomes = {}
        for choices, r in explore_choices(run):
            if raised(r):
                acc.fail("pcDelta/maxseqs-legacy-tuple/raised-%s" % r.type, case, "a histogram", r, note="m=%d" % m)
                return
            k = tuple(int(x) for x in r)
            outcomes[k] = outcomes.get(k, 0) + holder["prob"]
        expd = {}
        subs = list(itertools.combinations(range(N), min(N, m)))
        for s_ in subs:
            vals = [ref_lev(A[i], A[j]) + ref_lev(B[i], B[j]) for i, j in itertools.combinations(s_, 2)]
            h = tuple(ref_hist(vals, edges))
            expd[h] = expd.get(h, 0) + Fraction(1, len(subs))
        if outcomes != expd:
            acc.fail("pcDelta/maxseqs-legacy-tuple/distribution", case, {str(k): str(v) for k, v in expd.items()}, {str(k): str(v) for k, v in outcomes.items()}, note="m=%d N=%d" % (m, N))
            return
        acc.ok((tab, m, "tuple"), nontrivial=N > m)


def _check_maxseqs_table(acc, case):
    import pandas as pd
    import pyrepseq
    tab = case[1]
    A = [CD[a] for a, b in tab]
    B = [CD[b] for a, b in tab]
    N = len(tab)
    edges = [0, 1, 2, 3]
    for m in sorted({1, 2, N - 1, N, N + 1}):
        if m < 1:
            continue
        holder = {}
        df = pd.DataFrame({"CDR3A": A, "CDR3B": B}, index=range(2, 2 + N))

        def run(ch):
            with rng_seam(ch) as seam:
                r = acc.call(pyrepseq.pcDelta, df, bins=edges, normalize=False, maxseqs=m)
                holder["prob"] = seam.prob
                holder["log"] = list(seam.log)
            return r
        outcomes = {}
        for choices, r in explore_choices(run):
            if raised(r):
                acc.fail("pcDelta/maxseqs-table/raised-%s" % r.type, case, "a histogram", r, note="m=%d" % m)
                return
            if N > m:
                acc.cls("maxseqs-downsampled")
            k = tuple(int(x) for x in r)
            outcomes[k] = outcomes.get(k, 0) + holder["prob"]
        expd = {}
        subs = list(itertools.combinations(range(N), min(N, m)))
        for s in subs:
            vals = [ref_lev(A[i], A[j]) + ref_lev(B[i], B[j]) for i, j in itertools.combinations(s, 2)]
            h = tuple(ref_hist(vals, edges))
            expd[h] = expd.get(h, 0) + Fraction(1, len(subs))
        if outcomes != expd:
            acc.fail("pcDelta/maxseqs-table/distribution", case, {str(k): str(v) for k, v in expd.items()}, {str(k): str(v) for k, v in outcomes.items()}, note="m=%d" % m)
            return
        acc.ok((tab, m), nontrivial=N > m)


def _check_background(acc, case):
    import numpy as np
    import pyrepseq
    r = acc.call(pyrepseq.load_pcDelta_background)
    if raised(r):
        acc.fail("load_pcDelta_background/raised", case, "table, bins", r)
        return
    back, bins = r
    bins = list(np.asarray(bins).tolist())
    problems = []
    if bins != list(range(len(bins))):
        problems.append("bins are not consecutive integers from 0: %r" % bins[:6])
    if len(bins) != len(back) + 1:
        problems.append("len(bins)=%d, table rows=%d" % (len(bins), len(back)))
    if list(back.index) != bins[:-1]:
        problems.append("table index is not bins[:-1]")
    h = acc.call(pyrepseq.pcDelta, ["CASSF", "CASTF", "CAF"], bins=np.asarray(bins))
    if raised(h) or len(h) != len(back):
        problems.append("pcDelta(x, bins=bins) has %s entries, table has %d rows" % ("?" if raised(h) else len(h), len(back)))
    # the returned table and bins belong to the caller: scribbling on them must not leak into the next call
    try:
        bins_arr = r[1]
        bins_arr[-1] = 1000
        back.iloc[0, 0] = -1.0
    except Exception:
        pass
    r2 = acc.call(pyrepseq.load_pcDelta_background)
    if raised(r2) or list(np.asarray(r2[1]).tolist()) != list(range(len(bins))) or float(r2[0].iloc[0, 0]) == -1.0:
        problems.append("a second call returns objects modified by the caller after the first call (shared/cached result)")
    b2 = acc.call(pyrepseq.load_pcDelta_background, return_bins=False)
    back = r2[0] if not raised(r2) else back
    if raised(b2) or not b2.equals(back):
        problems.append("return_bins=False differs")
    if problems:
        acc.fail("load_pcDelta_background/alignment", case, "bins = 0..n consecutive, one more than the table has rows", problems)
    else:
        acc.ok(("bg", len(back)), nontrivial=True)
