"""C15 - clusters are the connected components / SciPy clusters of the stated distances."""
import itertools
from mc.core import Space, HarnessError, raised
from mc import enum as E
from mc.refmodel import ref_lev, ref_components, partition_of, neighbors_within

ID = "C15"
RULE = ("every undirected graph on n <= 5 (thorough 6) labelled nodes, as a symmetric / one-orientation / distance-0 triplet list with three "
        "node-label spellings, is clustered with cc, fastgreedy, multilevel, leiden and compared with an own union-find partition; neighbour "
        "lists actually produced by nearest_neighbor / kdtree(hamming) / symdel(float distance) on all lists of the bound are clustered too; "
        "hierarchical_clustering on all lists and small TCR tables is compared with scipy linkage/fcluster of own distances, and single "
        "linkage at t with the components of the max_edits=t neighbour graph; non-trivial = at least one edge")
ASSUMPTIONS = ["SciPy linkage/fcluster and igraph community detection are the trusted base named by the property; community variants are only required to stay inside connected components",
               "rapidfuzz cdist workers=-1 answered with one thread"]
REQUIRED_CLASSES = {"all": ["empty-neighbour-list", "isolated-node", "distance-0-edge", "float-distances", "string-labels", "series-labels", "tcr-table", "single-linkage-identity", "repeated-node-labels", "empty-linkage_kws", "self-matches-in-neighbour-list", "partial-cluster_kws", "missing-node-labels", "ward-centroid-linkage", "merge-height-above-largest-distance", "explicit-metric-object", "same-concatenation-different-split", "tcr-distances-beyond-the-plotting-bins", "explicit-chain-weights"]}
MIN_OUTCOMES = 10
SINGLE_THREAD_RAPIDFUZZ = True
METHODS = ("cc", "fastgreedy", "multilevel", "leiden")
CD = ("CA", "CS", "AS", "CAS")


def spaces(tier):
    q = tier == "quick"

    def gen_graphs():
        for n in range(1, (5 if q else 6) + 1):
            pairs = list(itertools.combinations(range(n), 2))
            for mask in range(1 << len(pairs)):
                if n == 6 and mask % 4 != 1:
                    continue
                yield ("graph", n, mask)

    def gen_nn():
        for seqs in E.lists(E.universe("AC", 2), 4 if q else 5):
            yield ("nnlist", seqs)

    def gen_hier():
        for seqs in E.lists(E.universe("AC", 2), 4 if q else 5, minlen=2):
            yield ("hier", seqs)

    def gen_tcr():
        rows = list(itertools.product(range(4), range(3)))
        for n in (2, 3) if q else (2, 3, 4):
            for ci, tab in enumerate(itertools.product(rows, repeat=n)):
                if n == 3 and q and ci % 6 != 1:
                    continue
                if n == 4 and ci % 24 != 1:
                    continue
                yield ("tcr", tab)
        X = (("CAVS", "SGQYF"), ("CAV", "SSGQYF"), ("CAVS", "SGQYW"), ("CA", "VSSGQYF"), ("CAVSS", "GQYF"))
        for n in (2, 3, 4):
            for tab in itertools.permutations(X, n):
                if n == 4 and tab[0] > tab[-1]:
                    continue
                yield ("tcrx", tab)
        # CDR3s more than 25 / 50 edits apart: the metric classes' plotting bins end there, the distances handed to SciPy do not
        XL = (("CAVS", "SGQYF"), ("CAVS" + "GNTEAFFGQGTRLTVVEDLKNVFPPEVAV", "SGQYF"), ("CAV", "CASS" + "LGQGNTEAFFGQGTRLTVVEDLKNVFPPE"), ("CAVSW", "SGQYFW"),
              ("CAVS" + "GNTEAFFGQGTRLTVVEDLKNVFPPEVAV", "CASS" + "LGQGNTEAFFGQGTRLTVVEDLKNVFPPE"))
        for n in (2, 3):
            for tab in itertools.permutations(XL, n):
                yield ("tcrx", tab)

    def gen_big():
        # SciPy's optimal leaf ordering needs minutes for > 5e6 distances: thorough tier only
        if not q:
            yield ("hierbig", 3201, "explicit-metric")

    return [
        Space("hierarchical-size-boundary", gen_big, "thorough only: 3201 distinct items (condensed vector of > 5e6 distances) with an explicit Metric object (Euclidean distance of pseudo-random 6-d points), default arguments (average linkage, optimal ordering, t=6)", per_case=True),
        Space("all-graphs", gen_graphs, "every undirected graph on 1..5 labelled nodes (thorough: + a quarter of the 6-node graphs) x 3 triplet forms x 3 label spellings x 4 methods", shards=32),
        Space("neighbour-lists-from-search", gen_nn, "Lists(U(AC,2),4|5) x k in 1..2 x {nearest_neighbor, kdtree hamming (float d), symdel custom float}; includes empty lists and distance-0 duplicates", shards=32),
        Space("hierarchical-all-lists", gen_hier, "Lists(U(AC,2),4|5), N>=2 x linkage in {single, average, complete} x t in 0..3; single-linkage == components identity", shards=64),
        Space("hierarchical-tcr-tables", gen_tcr, "tables of 2..3(4) rows over 4x3 CDR3 pairs (3-/4-row tables thinned by a fixed stride), column sets alpha/beta/both, shifted index, legacy tuple; receptors with CDR3s of up to 33 residues (distances beyond the metric classes' plotting bins of 25 / 50)"),
    ]


def _labels(n, spell):
    import pandas as pd
    if spell == "missing":
        # annotation labels may be missing for some nodes (None / NaN): membership is about nodes, not about labels
        return [None if i % 2 else "e%d" % i for i in range(n)]
    if spell == "repeated":
        # labels need not be unique (donor, V gene, epitope ...): two nodes may carry the same label
        return ["d%d" % (i % 2) for i in range(n)]
    if spell == "list":
        return ["n%d" % i for i in range(n)]
    if spell == "ints":
        return list(range(100, 100 + n))
    return pd.Series(["s%d" % i for i in range(n)], index=range(3, 3 + n))


def _check_clustering(acc, case, triplets, n, edges, tag):
    import numpy as np
    import pandas as pd
    import pyrepseq
    comps = ref_components(n, edges)
    big = sorted(c for c in comps if len(c) > 1)
    comp_of = {i: ci for ci, c in enumerate(comps) for i in c}
    if any(len(c) == 1 for c in comps):
        acc.cls("isolated-node")
    if not triplets:
        acc.cls("empty-neighbour-list")
    for spell in ("list", "ints", "series", "repeated", "missing"):
        if spell == "repeated":
            acc.cls("repeated-node-labels")
        if spell == "missing":
            acc.cls("missing-node-labels")
        if spell == "list":
            acc.cls("string-labels")
        if spell == "series":
            acc.cls("series-labels")
        nodes = _labels(n, spell)
        lab = list(nodes)
        for method in METHODS:
            r = acc.call(pyrepseq.graph_clustering, triplets, nodes, clustering=method)
            key = "graph_clustering/%s/%s" % (method, tag)
            if raised(r):
                acc.fail(key + "/raised-" + r.type, case, [[lab[i] for i in c] for c in big], r, note="labels=%s" % spell)
                return False
            try:
                node_col = "node" if "node" in r.columns else r.columns[0]
                got = {}
                if spell in ("repeated", "missing"):
                    # labels are ambiguous: rows are identified by their position in the caller's node list (the frame keeps it as index)
                    for pos_, node, cl in zip(r.index.tolist(), r[node_col].tolist(), r["cluster"].tolist()):
                        if lab[pos_] != node and not (lab[pos_] is None and (node is None or node != node)):
                            raise ValueError("row %r carries label %r, node list has %r" % (pos_, node, lab[pos_]))
                        got.setdefault(cl, []).append(pos_)
                else:
                    for node, cl in zip(r[node_col].tolist(), r["cluster"].tolist()):
                        got.setdefault(cl, []).append(lab.index(node))
                part = sorted(tuple(sorted(v)) for v in got.values())
            except Exception as e:
                acc.fail(key + "/malformed", case, "frame with node, cluster", repr(r)[:300])
                return False
            flat = [i for c in part for i in c]
            if len(flat) != len(set(flat)):
                acc.fail(key + "/node-twice", case, big, part)
                return False
            if method == "cc":
                if part != big:
                    acc.fail(key + "/partition", case, [[lab[i] for i in c] for c in big], [[lab[i] for i in c] for c in part], note="labels=%s" % spell)
                    return False
            else:
                if any(len(c) < 2 for c in part):
                    acc.fail(key + "/singleton-cluster-returned", case, "only clusters with more than one member", part)
                    return False
                if any(len({comp_of[i] for i in c}) != 1 for c in part):
                    acc.fail(key + "/cluster-spans-components", case, comps, part)
                    return False
            acc.ok((method, tuple(part)), nontrivial=bool(edges))
    return True


def check_case(case, acc):
    import numpy as np
    import pandas as pd
    import scipy.cluster.hierarchy as hc
    import pyrepseq
    kind = case[0]
    if kind == "graph":
        _, n, mask = case
        pairs = list(itertools.combinations(range(n), 2))
        edges = [p for b, p in enumerate(pairs) if mask >> b & 1]
        forms = {
            "symmetric": [(i, j, 1) for i, j in edges] + [(j, i, 1) for i, j in edges],
            "one-orientation": [(j, i, 2) for i, j in edges],
            "distance-0": [(i, j, 0) for i, j in edges] + [(j, i, 0) for i, j in edges],
            # a collection searched against itself (seqs2=seqs) reports every (i, i, 0) as well
            "with-self-matches": [(i, i, 0) for i in range(n)] + [(i, j, 1) for i, j in edges] + [(j, i, 1) for i, j in edges],
        }
        for fname, trip in forms.items():
            if fname == "with-self-matches":
                acc.cls("self-matches-in-neighbour-list")
            if fname == "distance-0" and trip:
                acc.cls("distance-0-edge")
            if not _check_clustering(acc, ("graph1", n, mask, fname), trip, n, edges, "empty-list" if not trip else fname):
                return
    elif kind == "graph1":
        _, n, mask, fname = case
        pairs = list(itertools.combinations(range(n), 2))
        edges = [p for b, p in enumerate(pairs) if mask >> b & 1]
        trip = {"with-self-matches": [(i, i, 0) for i in range(n)] + [(i, j, 1) for i, j in edges] + [(j, i, 1) for i, j in edges],
                "symmetric": [(i, j, 1) for i, j in edges] + [(j, i, 1) for i, j in edges],
                "one-orientation": [(j, i, 2) for i, j in edges],
                "distance-0": [(i, j, 0) for i, j in edges] + [(j, i, 0) for i, j in edges]}[fname]
        _check_clustering(acc, case, trip, n, edges, "empty-list" if not trip else fname)
    elif kind == "nnlist":
        seqs = list(case[1])
        n = len(seqs)
        for k in (1, 2):
            for eng in ("nearest_neighbor", "kdtree-hamming", "symdel-float"):
                if eng == "nearest_neighbor":
                    trip = acc.call(pyrepseq.nearest_neighbor, seqs, k)
                    exp = neighbors_within(seqs, k)
                elif eng == "kdtree-hamming":
                    trip = acc.call(pyrepseq.kdtree, seqs, k, custom_distance="hamming")
                    exp = neighbors_within(seqs, k, dist="hamming")
                else:
                    trip = acc.call(pyrepseq.symdel, seqs, k, custom_distance=lambda a, b: ref_lev(a, b) / 2)
                    exp = neighbors_within(seqs, k)
                if raised(trip):
                    acc.fail("search-raised/%s" % eng, case, "triplets", trip)
                    return
                if any(isinstance(t[2], float) for t in trip):
                    acc.cls("float-distances")
                if any(t[2] == 0 for t in trip):
                    acc.cls("distance-0-edge")
                edges = sorted({(min(i, j), max(i, j)) for i, j, d in exp})
                if not _check_clustering(acc, ("nnlist1", case[1], k, eng), trip, n, edges, "empty-list" if not trip else "from-" + eng):
                    return
    elif kind == "nnlist1":
        _, seqs, k, eng = case
        sub = Acc2(acc)
        check_case(("nnlist", seqs), acc)
    elif kind == "hier":
        seqs = list(case[1])
        n = len(seqs)
        dist = np.array([ref_lev(seqs[i], seqs[j]) for i in range(n) for j in range(i + 1, n)], dtype=float)
        for method in ("single", "average", "complete"):
            for t in (0, 1, 2, 3):
                lk = dict(method=method, optimal_ordering=(method == "average"))
                ck = dict(t=t, criterion="distance")
                r = acc.call(pyrepseq.hierarchical_clustering, seqs, linkage_kws=lk, cluster_kws=ck)
                eL = hc.linkage(dist, **lk)
                eC = hc.fcluster(eL, **ck)
                key = "hierarchical_clustering/list/%s" % method
                if raised(r) or not (isinstance(r, tuple) and len(r) == 2) or not np.array_equal(np.asarray(r[0]), eL) or list(r[1]) != list(eC) or len(r[1]) != n:
                    acc.fail(key, ("hier1", case[1], method, t), {"linkage": eL.tolist(), "cluster": eC.tolist()}, r if raised(r) else {"linkage": np.asarray(r[0]).tolist(), "cluster": list(map(int, r[1]))})
                    return
                acc.ok((method, t, tuple(partition_of(list(eC)))), nontrivial=len(set(eC)) < n)
                if method == "single" and t >= 1:
                    acc.cls("single-linkage-identity")
                    nb = acc.call(pyrepseq.nearest_neighbor, seqs, t)
                    comps = ref_components(n, [(i, j) for i, j, d in nb]) if not raised(nb) else None
                    if comps != partition_of(list(r[1])):
                        acc.fail("single-linkage-vs-neighbour-graph-components", ("hier1", case[1], method, t), comps, partition_of(list(r[1])))
                        return
                    acc.ok()
        # variance-based linkages: merge heights may exceed the largest pairwise distance, so thresholds at and around that
        # distance separate "everything within t of everything" from "one cluster"
        acc.cls("ward-centroid-linkage")
        dmax = float(dist.max()) if len(dist) else 0.0
        for method in ("ward", "centroid", "weighted"):
            for t in sorted({1.0, 2.0, dmax, dmax + 0.5, dmax + 1}):
                lk = dict(method=method)
                ck = dict(t=t, criterion="distance")
                r = acc.call(pyrepseq.hierarchical_clustering, seqs, linkage_kws=lk, cluster_kws=ck)
                eL = hc.linkage(dist, **lk)
                eC = hc.fcluster(eL, **ck)
                if raised(r) or not np.array_equal(np.asarray(r[0]), eL) or list(r[1]) != list(eC):
                    acc.fail("hierarchical_clustering/list/%s" % method, ("hier1", case[1], method, t), {"linkage": eL.tolist(), "cluster": eC.tolist()}, r if raised(r) else {"linkage": np.asarray(r[0]).tolist(), "cluster": list(map(int, r[1]))})
                    return
                acc.ok((method, t, tuple(partition_of(list(eC)))), nontrivial=len(set(eC)) < n)
                if eL[-1, 2] > dmax and len(set(eC)) > 1 and t >= dmax:
                    acc.cls("merge-height-above-largest-distance")
        # an explicitly given Metric object (here one whose truth value is False, e.g. a memoising metric with an empty memo)
        acc.cls("explicit-metric-object")
        from pyrepseq.metric import Metric

        class FirstLetterLen(Metric):
            name = "firstletterlen"

            def __len__(self):
                return 0

            @staticmethod
            def _d(a, b):
                return 2 * abs(len(a) - len(b)) + (a[:1] != b[:1])

            def calc_cdist_matrix(self, A, B):
                return np.array([[self._d(a, b) for b in B] for a in A], dtype=float).reshape(len(A), len(B))

            def calc_pdist_vector(self, X):
                X = list(X)
                return np.array([self._d(X[i], X[j]) for i in range(len(X)) for j in range(i + 1, len(X))], dtype=float)
        mdist = np.array([FirstLetterLen._d(seqs[i], seqs[j]) for i in range(n) for j in range(i + 1, n)], dtype=float)
        for t in (0, 1, 2):
            lk = dict(method="complete")
            ck = dict(t=t, criterion="distance")
            r = acc.call(pyrepseq.hierarchical_clustering, seqs, metric=FirstLetterLen(), linkage_kws=lk, cluster_kws=ck)
            eL = hc.linkage(mdist, **lk)
            eC = hc.fcluster(eL, **ck)
            if raised(r) or not np.array_equal(np.asarray(r[0]), eL) or list(r[1]) != list(eC):
                acc.fail("hierarchical_clustering/list/explicit-metric", ("hier1", case[1], "metric", t), {"linkage": eL.tolist(), "cluster": eC.tolist()}, r if raised(r) else {"linkage": np.asarray(r[0]).tolist(), "cluster": list(map(int, r[1]))})
                return
            acc.ok()
        # an empty linkage_kws means SciPy's own defaults (single linkage, no optimal ordering)
        acc.cls("empty-linkage_kws")
        for t in (1, 2):
            r = acc.call(pyrepseq.hierarchical_clustering, seqs, linkage_kws={}, cluster_kws=dict(t=t, criterion="distance"))
            eL = hc.linkage(dist)
            eC = hc.fcluster(eL, t=t, criterion="distance")
            if raised(r) or not np.array_equal(np.asarray(r[0]), eL) or list(r[1]) != list(eC):
                acc.fail("hierarchical_clustering/list/empty-linkage_kws", ("hier1", case[1], "empty", t), eC.tolist(), r if raised(r) else list(map(int, r[1])))
                return
            acc.ok()
        # cluster_kws is handed to SciPy as given: a missing criterion means SciPy's default ('inconsistent'); depth is honoured
        acc.cls("partial-cluster_kws")
        for ck in (dict(t=1.0), dict(t=0.8, depth=3), dict(t=0.9, criterion="inconsistent", depth=4), dict(t=2, criterion="maxclust")):
            lk = dict(method="average")
            r = acc.call(pyrepseq.hierarchical_clustering, seqs, linkage_kws=lk, cluster_kws=dict(ck))
            eL = hc.linkage(dist, **lk)
            eC = hc.fcluster(eL, **ck)
            if raised(r) or not np.array_equal(np.asarray(r[0]), eL) or list(r[1]) != list(eC):
                acc.fail("hierarchical_clustering/list/partial-cluster_kws", ("hier1", case[1], "partial", 0), eC.tolist(), r if raised(r) else list(map(int, r[1])), note=str(ck))
                return
            acc.ok()
        # default arguments: average linkage with optimal ordering, t=6
        r = acc.call(pyrepseq.hierarchical_clustering, seqs)
        eL = hc.linkage(dist, method="average", optimal_ordering=True)
        eC = hc.fcluster(eL, t=6, criterion="distance")
        if raised(r) or not np.array_equal(np.asarray(r[0]), eL) or list(r[1]) != list(eC):
            acc.fail("hierarchical_clustering/list/defaults", ("hier1", case[1], "default", 6), eC.tolist(), r if raised(r) else list(map(int, r[1])))
            return
        acc.ok()
    elif kind == "hier1":
        check_case(("hier", case[1]), acc)
    elif kind == "hierbig":
        _, n, form = case
        acc.cls("large-condensed-vector")
        iu = np.triu_indices(n, 1)
        if form == "default-metric":
            # n distinct 8-letter strings; reference distances by a Wagner-Fischer recurrence vectorised over all pairs
            # (own code, bound to ref_lev on the first 3000 pairs)
            L = 8
            codes = np.array([[(k >> (2 * p)) & 3 for p in range(L)] for k in ((i * 20477 + 11) % 65536 for i in range(n))], dtype=np.int8)
            if len({tuple(c) for c in codes.tolist()}) != n:
                raise HarnessError("hierbig: strings not distinct")
            seqs = ["".join("ACDE"[c] for c in row) for row in codes.tolist()]
            A, B = codes[iu[0]], codes[iu[1]]
            prev = [np.full(len(A), j, dtype=np.int8) for j in range(L + 1)]
            for i in range(1, L + 1):
                cur = [np.full(len(A), i, dtype=np.int8)]
                for j in range(1, L + 1):
                    sub = prev[j - 1] + (A[:, i - 1] != B[:, j - 1])
                    cur.append(np.minimum(np.minimum(prev[j] + 1, cur[j - 1] + 1), sub).astype(np.int8))
                prev = cur
            dist = prev[L].astype(float)
            for k in range(3000):
                if dist[k] != ref_lev(seqs[iu[0][k]], seqs[iu[1][k]]):
                    raise HarnessError("hierbig: vectorised reference disagrees with ref_lev")
            r = acc.call(pyrepseq.hierarchical_clustering, seqs)
        else:
            from pyrepseq.metric import Metric
            v = np.empty(n * 6)
            st = 12345
            for k in range(n * 6):
                st = (st * 1103515245 + 12345) % (2 ** 31)
                v[k] = st / 2 ** 31
            P = v.reshape(n, 6)
            seqs = ["S%04d" % i for i in range(n)]

            class NumberMetric(Metric):
                name = "points"

                def calc_cdist_matrix(self, A, B):
                    raise NotImplementedError

                def calc_pdist_vector(self, X):
                    k = np.array([int(x[1:]) for x in X])
                    a, b = np.triu_indices(len(k), 1)
                    return np.sqrt(((P[k[a]] - P[k[b]]) ** 2).sum(1))
            dist = np.sqrt(((P[iu[0]] - P[iu[1]]) ** 2).sum(1))
            r = acc.call(pyrepseq.hierarchical_clustering, seqs, metric=NumberMetric())
        eL = hc.linkage(dist, method="average", optimal_ordering=True)
        eC = hc.fcluster(eL, t=6, criterion="distance")
        if raised(r) or not (isinstance(r, tuple) and len(r) == 2) or not np.array_equal(np.asarray(r[0]), eL) or list(r[1]) != list(eC):
            bad = None if raised(r) else int(np.argmax(np.any(np.asarray(r[0]) != eL, axis=1))) if np.asarray(r[0]).shape == eL.shape else "shape"
            acc.fail("hierarchical_clustering/size-boundary/%s" % form, case, "SciPy linkage (average, optimal ordering) and fcluster(t=6) of the %d distances" % len(dist), r if raised(r) else {"first-differing-merge": bad, "clusters-equal": list(r[1]) == list(eC)})
            return
        acc.ok(("big", n, form, len(set(eC))), nontrivial=True)
    elif kind in ("tcr", "tcrx"):
        tab = case[1]
        acc.cls("tcr-table")
        if kind == "tcr":
            A = [CD[a] for a, b in tab]
            B = [CD[b] + "F" for a, b in tab]
        else:
            # explicit chains: receptors whose two CDR3s concatenate to the same text with another split are different receptors
            acc.cls("same-concatenation-different-split")
            A = [a for a, b in tab]
            B = [b for a, b in tab]
        n = len(tab)
        da = np.array([ref_lev(A[i], A[j]) for i in range(n) for j in range(i + 1, n)], dtype=float)
        if kind == "tcrx" and max(len(x) for x in A + B) > 25:
            acc.cls("tcr-distances-beyond-the-plotting-bins")
        db = np.array([ref_lev(B[i], B[j]) for i in range(n) for j in range(i + 1, n)], dtype=float)
        variants = {"alpha": (pd.DataFrame({"CDR3A": A}), da), "beta": (pd.DataFrame({"CDR3B": B}, index=range(5, 5 + n)), db),
                    "both": (pd.DataFrame({"TRBV": ["TRBV2*01"] * n, "CDR3B": B, "CDR3A": A}, index=range(5, 5 + n)), da + db),
                    "legacy-tuple": ((A, B), da + db),
                    # gene annotation may be unknown for some rows: the metric only reads the CDR3 columns
                    "both+unknown-genes": (pd.DataFrame({"TRBV": [None if i % 2 else "TRBV2*01" for i in range(n)], "TRAJ": [None] * n, "CDR3B": B, "CDR3A": A}), da + db),
                    # the two chains as Series taken from differently indexed tables: pairing is by position
                    "legacy-tuple-of-series": ((pd.Series(A, index=range(n)), pd.Series(B, index=range(n - 1, -1, -1))), da + db)}
        for name, (inp, dist) in variants.items():
            for method, t in (("single", 1), ("average", 2), ("complete", 1)):
                lk = dict(method=method, optimal_ordering=True)
                ck = dict(t=t, criterion="distance")
                r = acc.call(pyrepseq.hierarchical_clustering, inp, linkage_kws=lk, cluster_kws=ck)
                eL = hc.linkage(dist, **lk)
                eC = hc.fcluster(eL, **ck)
                if raised(r) or not np.array_equal(np.asarray(r[0]), eL) or list(r[1]) != list(eC):
                    acc.fail("hierarchical_clustering/tcr-table/%s" % name, case, {"linkage": eL.tolist(), "cluster": eC.tolist()}, r if raised(r) else {"linkage": np.asarray(r[0]).tolist(), "cluster": list(map(int, r[1]))}, note="%s t=%d" % (method, t))
                    return
                acc.ok((name, method, t, tuple(eC.tolist())), nontrivial=len(set(eC)) < n)
        # an explicitly weighted paired metric: alpha_weight * lev(CDR3A) + beta_weight * lev(CDR3B), chains not interchangeable
        from pyrepseq.metric.tcr_metric import Cdr3Levenshtein
        acc.cls("explicit-chain-weights")
        for wa, wb in ((3, 1), (1, 2)):
            lk = dict(method="average", optimal_ordering=True)
            ck = dict(t=2, criterion="distance")
            r = acc.call(pyrepseq.hierarchical_clustering, variants["both"][0], metric=Cdr3Levenshtein(alpha_weight=wa, beta_weight=wb), linkage_kws=lk, cluster_kws=ck)
            eL = hc.linkage(wa * da + wb * db, **lk)
            eC = hc.fcluster(eL, **ck)
            if raised(r) or not np.array_equal(np.asarray(r[0]), eL) or list(r[1]) != list(eC):
                acc.fail("hierarchical_clustering/tcr-table/explicit-chain-weights", case, {"linkage": eL.tolist(), "cluster": eC.tolist()}, r if raised(r) else {"linkage": np.asarray(r[0]).tolist(), "cluster": list(map(int, r[1]))}, note="alpha_weight=%d beta_weight=%d" % (wa, wb))
                return
            acc.ok(("w", wa, wb, tuple(eC.tolist())), nontrivial=True)
    else:
        raise HarnessError("unknown case %r" % (case,))


def Acc2(acc):
    return acc
