"""C13 - grouped, conditional and entropy statistics are compositions of pc and pcDelta."""
import itertools
import math
from fractions import Fraction
from mc.core import Space, HarnessError, raised
from mc.refmodel import ref_pc, ref_pc2, ref_hist, ref_lev, feq

ID = "C13"
RULE = ("every table of the bound (group column over <= 3 keys in every order, spelled as strings and as ints whose sort order differs "
        "from their first-appearance order, optional second grouping column, one or two feature columns over 2 symbols) is run through "
        "pc_conditional, pc_grouped_cross, pcDelta_grouped, pcDelta_grouped_cross, renyi2_entropy, stdrenyi2_entropy and compared with "
        "literal compositions of the reference pc / histogram; non-trivial = at least one group with two members")
ASSUMPTIONS = ["float tolerance 1e-12, NaN-equal, inf-equal", "missing cells are kept out of this alphabet (C02 covers them)",
               "pcDelta_grouped(bins=0) may return a Series or a one-column frame: only the per-group values (sorted group order) are compared"]
REQUIRED_CLASSES = {"all": ["singleton-group", "unsorted-keys", "non-uniform-weights", "all-groups-singleton", "bins=0-form", "two-features", "two-grouping-columns", "grouping-keys-that-collide-when-joined", "missing-feature-cells"]}
MIN_OUTCOMES = 10
SINGLE_THREAD_RAPIDFUZZ = True

KEYS = {"str": ("b", "a", "c", "e", "d"), "int": (10, 2, 33, 4, 21)}
FEAT = ("CA", "CAS")
FEAT2 = ("x", "y")
EDGES = [0, 1, 2, 3]
NAN = float("nan")


def spaces(tier):
    q = tier == "quick"

    def gen_one():
        for n in range(2, (4 if q else 5) + 1):
            for g in itertools.product(range(3), repeat=n):
                for f in itertools.product(range(2), repeat=n):
                    yield ("t1", g, f)

    def gen_four_groups():
        # four and five groups (the smallest tables whose condensed pair order differs from the mirrored order of a square matrix)
        for g in ((0, 1, 2, 3), (3, 1, 0, 2), (0, 1, 2, 3, 3), (4, 0, 2, 1, 3), (0, 0, 1, 2, 3)):
            for f in itertools.product(range(2), repeat=len(g)):
                yield ("t1", g, f)

    def gen_two_feat():
        for n in range(2, (3 if q else 4) + 1):
            for g in itertools.product(range(2), repeat=n):
                for f in itertools.product(range(2), repeat=n):
                    for f2 in itertools.product(range(2), repeat=n):
                        yield ("t2", g, f, f2)

    def gen_missing():
        for n in range(2, (4 if q else 5) + 1):
            for g in itertools.product(range(2), repeat=n):
                for f in itertools.product(range(3), repeat=n):
                    if 2 in f:
                        yield ("tm", g, f)

    def gen_two_by():
        for n in range(2, (3 if q else 4) + 1):
            for g in itertools.product(range(2), repeat=n):
                for h in itertools.product(range(2), repeat=n):
                    for f in itertools.product(range(2), repeat=n):
                        yield ("tb", g, h, f)
        if q:
            # four rows forming two groups of two (the smallest tables in which the ORDER of the groups matters for positional weights)
            for g in itertools.product(range(2), repeat=4):
                for h in itertools.product(range(2), repeat=4):
                    cnt = {}
                    for k in zip(g, h):
                        cnt[k] = cnt.get(k, 0) + 1
                    if sorted(cnt.values()) == [2, 2]:
                        for f in itertools.product(range(2), repeat=4):
                            yield ("tb", g, h, f)

        # five rows in three combinations of sizes 2, 2, 1: a single-member combination whose every component also occurs in a larger
        # combination (it must be left out as a combination, not column by column); first column in non-decreasing order
        for g in itertools.product(range(2), repeat=5):
            if list(g) != sorted(g):
                continue
            for h in itertools.product(range(2), repeat=5):
                cnt = {}
                for k in zip(g, h):
                    cnt[k] = cnt.get(k, 0) + 1
                if sorted(cnt.values()) == [1, 2, 2]:
                    for f in itertools.product(range(2), repeat=5):
                        if f[0] == 0:
                            yield ("tb", g, h, f)

    return [
        Space("four-and-five-groups", gen_four_groups, "tables of 4..5 rows in 4..5 groups (5 group patterns x every feature pattern)"),
        Space("one-group-column-one-feature", gen_one, "all tables of 2..4 (quick) / 2..5 (thorough) rows, group key in 3 keys, feature in 2 sequences; keys spelled as strings and ints; 4 weightings; 3 bases; bins in {edges, 0}", shards=64),
        Space("two-feature-columns", gen_two_feat, "all tables of 2..3(4) rows, 2 group keys, two binary feature columns (joint statistics)"),
        Space("numeric-feature-with-missing-cells", gen_missing, "all tables of 2..4(5) rows, 2 group keys, a numeric feature column over {1.5, 2.5, missing} with at least one missing cell; `on` given as a one-element list (joint form: a missing cell is one value)"),
        Space("two-grouping-columns", gen_two_by, "all tables of 2..3(4) rows, two binary grouping columns, one feature; 4 rows in two combinations of two; 5 rows in combinations of sizes 2,2,1 (first column sorted, first feature fixed)"),
    ]


def groups_of(keys):
    d = {}
    for i, k in enumerate(keys):
        d.setdefault(k, []).append(i)
    return d


def weights_for(ng):
    out = [("none", None)]
    if ng >= 1:
        out.append(("ones", [1] * ng))
        out.append(("123", [1, 2, 3][:ng]))
        out.append(("312", [3, 1, 2][:ng]))
        out.append(("tiny", [x * 1e-7 for x in (1, 2, 4)][:ng]))        # only the ratios of the weights matter
        out.append(("huge", [x * 1e9 for x in (3, 1, 2)][:ng]))
    return out


def ref_conditional(keys, rows, w):
    gs = groups_of(keys)
    names = sorted(k for k, idx in gs.items() if len(idx) > 1)
    if not names:
        return NAN
    pcs = [ref_pc([rows[i] for i in gs[k]]) for k in names]
    if w is None:
        w = [1] * len(names)
    den = sum(x * x for x in w)
    return float(sum(Fraction(x * x) * p for x, p in zip(w, pcs)) / den)


def _vals(x):
    import numpy as np
    return np.asarray(x, dtype=float)


def _cmp_matrix(obs, exp_rows):
    import numpy as np
    if raised(obs):
        return False
    try:
        o = _vals(obs)
    except Exception:
        return False
    e = np.array(exp_rows, dtype=float)
    if o.shape != e.shape:
        if o.size == e.size:
            o = o.reshape(e.shape)
        else:
            return False
    return all(feq(a, b) for a, b in zip(o.ravel().tolist(), e.ravel().tolist()))


def check_case(case, acc):
    kind = case[0]
    if kind == "t1":
        _, g, f = case
        for spell in ("str", "int"):
            _check_table(acc, case, spell, [KEYS[spell][i] for i in g], None, [FEAT[i] for i in f], None)
    elif kind == "t2":
        _, g, f, f2 = case
        acc.cls("two-features")
        _check_table(acc, case, "str", [KEYS["str"][i] for i in g], None, [FEAT[i] for i in f], [FEAT2[i] for i in f2])
    elif kind == "tm":
        _, g, f = case
        acc.cls("missing-feature-cells")
        _check_missing(acc, case, [KEYS["str"][i] for i in g], [(1.5, 2.5, None)[i] for i in f])
    elif kind == "tb":
        _, g, h, f = case
        acc.cls("two-grouping-columns")
        _check_table(acc, case, "str", [KEYS["str"][i] for i in g], [(7, 3)[i] for i in h], [FEAT[i] for i in f], None)
        # key tuples whose text would collide if joined ('d_1','2') vs ('d','1_2'); and 1 vs '1'
        acc.cls("grouping-keys-that-collide-when-joined")
        _check_table(acc, case, "str", [("d_1", "d")[i] for i in g], [("2", "1_2")[i] for i in h], [FEAT[i] for i in f], None)
    else:
        raise HarnessError("unknown case %r" % (case,))


def _check_missing(acc, case, gcol, fcol):
    """joint form (`on` is a list): a missing cell is one distinct empty value, within and across groups"""
    import numpy as np
    import pandas as pd
    import pyrepseq
    n = len(gcol)
    df = pd.DataFrame({"g": gcol, "num": [np.nan if v is None else v for v in fcol]})
    gs = groups_of(gcol)
    names = sorted(gs)
    rows = list(fcol)
    exp = ref_conditional(gcol, rows, None)
    r = acc.call(pyrepseq.pc_conditional, df, "g", ["num"])
    if raised(r) or not feq(r, exp):
        acc.fail("pc_conditional/missing-feature-cells", case, exp, r)
        return
    acc.ok(("pccm", round(exp, 12) if exp == exp else None), nontrivial=exp == exp)
    r = acc.call(pyrepseq.pc_grouped_cross, df, "g", ["num"])
    expm = [[NAN if a == b else float(ref_pc2([rows[i] for i in gs[a]], [rows[i] for i in gs[b]])) for b in names] for a in names]
    if not _cmp_matrix(r, expm):
        acc.fail("pc_grouped_cross/missing-feature-cells", case, expm, r if raised(r) else _vals(r).tolist())
        return
    acc.ok()
    pc_all = ref_pc(rows)
    r = acc.call(pyrepseq.renyi2_entropy, df, ["num"], by="g")
    e = exp
    e = NAN if e != e else (math.inf if e == 0 else -math.log(e) / math.log(2.0))
    if raised(r) or not feq(r, e):
        acc.fail("renyi2_entropy/conditional/missing-feature-cells", case, e, r)
        return
    acc.ok()


def _check_table(acc, case, spell, gcol, hcol, fcol, f2col):
    import numpy as np
    import pandas as pd
    import pyrepseq
    n = len(gcol)
    data = {"g": gcol, "seq": fcol}
    if hcol is not None:
        data["h"] = hcol
    if f2col is not None:
        data["f2"] = f2col
    df = pd.DataFrame(data, index=range(4, 4 + n))
    snapshot = df.copy(deep=True)
    by = "g" if hcol is None else ["g", "h"]
    keys = list(gcol) if hcol is None else list(zip(gcol, hcol))
    on = "seq" if f2col is None else ["seq", "f2"]
    rows = list(fcol) if f2col is None else list(zip(fcol, f2col))
    gs = groups_of(keys)
    names = sorted(gs)
    multi = sorted(k for k in names if len(gs[k]) > 1)
    if any(len(v) == 1 for v in gs.values()):
        acc.cls("singleton-group")
    if not multi:
        acc.cls("all-groups-singleton")
    first_seen = list(dict.fromkeys(keys))
    if first_seen != sorted(first_seen):
        acc.cls("unsorted-keys")
    nt = bool(multi)
    tag = "%s/%s" % ("joint" if f2col is not None else "single", "by2" if hcol is not None else "by1")

    def fail(key, exp, obs, note=""):
        acc.fail("%s/%s" % (key, tag), case + (spell,) if case[0] == "t1" else case, exp, obs, note=note)

    # ---- pc_conditional with every weighting
    for wname, w in weights_for(len(multi)):
        if w is not None and len(set(w)) > 1:
            acc.cls("non-uniform-weights")
        exp = ref_conditional(keys, rows, w)
        for byv in ((by, [by]) if hcol is None else (by,)):
            r = acc.call(pyrepseq.pc_conditional, df, byv, on, **({} if w is None else {"group_weights": w}))
            if raised(r) or not feq(r, exp):
                fail("pc_conditional/%s" % ("weights" if w is not None else "uniform"), exp, r, note="weights=%r by=%r" % (w, byv))
                return
            acc.ok(("pcc", wname, round(exp, 12) if exp == exp else None), nontrivial=nt)
        if hcol is not None:
            # the grouping columns in the caller's order, here not the alphabetical one: groups (and with them the positional
            # weights) are ordered by (h, g)
            acc.cls("grouping-columns-not-in-alphabetical-order")
            exp_r = ref_conditional([(h_, g_) for g_, h_ in keys], rows, w)
            r = acc.call(pyrepseq.pc_conditional, df, ["h", "g"], on, **({} if w is None else {"group_weights": w}))
            if raised(r) or not feq(r, exp_r):
                fail("pc_conditional/by-in-caller-order", exp_r, r, note="weights=%r by=['h','g']" % (w,))
                return
            acc.ok()
        if w is not None:
            wa = np.array(w, dtype=float)
            r = acc.call(pyrepseq.pc_conditional, df, by, on, group_weights=wa)
            if raised(r) or not feq(r, exp) or wa.tolist() != [float(x) for x in w]:
                fail("pc_conditional/ndarray-weights", {"value": exp, "weights": w}, {"value": r, "weights": wa.tolist()})
                return
            acc.ok()
    # ---- pc_grouped_cross
    r = acc.call(pyrepseq.pc_grouped_cross, df, by, on)
    expm = [[NAN if a == b else float(ref_pc2([rows[i] for i in gs[a]], [rows[i] for i in gs[b]])) for b in names] for a in names]
    okm = _cmp_matrix(r, expm) and list(r.index) == names and list(r.columns) == names
    if not okm:
        fail("pc_grouped_cross", {"names": names, "matrix": expm}, r if raised(r) else {"names": list(r.index), "matrix": _vals(r).tolist()})
        return
    acc.ok(("pgc", tuple(map(tuple, np.nan_to_num(np.array(expm, dtype=float), nan=-1).round(9).tolist()))), nontrivial=len(names) > 1)
    # ---- pcDelta_grouped / pcDelta_grouped_cross on the sequence column (single feature only)
    if f2col is None:
        def hist(idx, idx2=None, normalize=True):
            if idx2 is None:
                vals = [ref_lev(fcol[i], fcol[j]) for a, i in enumerate(idx) for j in idx[a + 1:]]
            else:
                vals = [ref_lev(fcol[i], fcol[j]) for i in idx for j in idx2]
            c = ref_hist(vals, EDGES)
            t = sum(c)
            return [x / t if t else NAN for x in c] if normalize else c
        for normalize in (True, False):
            r = acc.call(pyrepseq.pcDelta_grouped, df, by, "seq", bins=EDGES, normalize=normalize)
            exp = [hist(gs[k], None, normalize) for k in names]
            if not _cmp_matrix(r, exp) or [tuple(x) if isinstance(x, tuple) else x for x in r.index] != names:
                fail("pcDelta_grouped/edges", {"names": names, "rows": exp}, r if raised(r) else {"names": list(r.index), "rows": _vals(r).tolist()})
                return
            acc.ok(("pdg", normalize, str(exp)), nontrivial=nt)
        # maxseqs is pcDelta's per-group option: with maxseqs no smaller than the largest group nothing is sampled
        acc.cls("maxseqs-not-smaller-than-any-group")
        big = max(len(v) for v in gs.values())
        if big < len(fcol):
            r = acc.call(pyrepseq.pcDelta_grouped, df, by, "seq", bins=EDGES, normalize=False, maxseqs=big)
            exp = [hist(gs[k], None, False) for k in names]
            if not _cmp_matrix(r, exp) or len(r) != len(names):
                fail("pcDelta_grouped/maxseqs-not-smaller-than-any-group", {"names": names, "rows": exp}, r if raised(r) else {"names": list(r.index), "rows": _vals(r).tolist()}, note="maxseqs=%d" % big)
                return
            acc.ok()
        # keyword arguments go to pcDelta unchanged: with a pseudocount c a group without any pair (a singleton) has the
        # prior c/(2c) in every bin, not NaN
        for pcnt in (0.5, 2):
            acc.cls("pseudocount-forwarded")
            r = acc.call(pyrepseq.pcDelta_grouped, df, by, "seq", bins=EDGES, pseudocount=pcnt)
            exp = []
            for k in names:
                c = hist(gs[k], None, False)
                exp.append([(x + pcnt) / (sum(c) + 2 * pcnt) for x in c])
            if not _cmp_matrix(r, exp):
                fail("pcDelta_grouped/pseudocount", {"names": names, "rows": exp}, r if raised(r) else {"names": list(r.index), "rows": _vals(r).tolist()}, note="pseudocount=%r" % pcnt)
                return
            if len(names) >= 2:
                r = acc.call(pyrepseq.pcDelta_grouped_cross, df, by, "seq", condensed=True, bins=EDGES, pseudocount=pcnt)
                exp = []
                for a, b in itertools.combinations(names, 2):
                    c = hist(gs[a], gs[b], False)
                    exp.append([(x + pcnt) / (sum(c) + 2 * pcnt) for x in c])
                if not _cmp_matrix(r, exp):
                    fail("pcDelta_grouped_cross/pseudocount", {"rows": exp}, r if raised(r) else _vals(r).tolist(), note="pseudocount=%r" % pcnt)
                    return
            acc.ok()
        if len(names) >= 2:
            r = acc.call(pyrepseq.pcDelta_grouped_cross, df, by, "seq", condensed=True, bins=EDGES)
            pairs = list(itertools.combinations(names, 2))
            exp = [hist(gs[a], gs[b]) for a, b in pairs]
            if not _cmp_matrix(r, exp) or [tuple(x) for x in r.index] != [tuple(p) for p in pairs]:
                fail("pcDelta_grouped_cross/condensed-edges", {"pairs": pairs, "rows": exp}, r if raised(r) else {"pairs": [tuple(x) for x in r.index], "rows": _vals(r).tolist()})
                return
            acc.ok()
        if len(names) >= 2:
            # an insertion/deletion-asymmetric metric: the row labelled (g, h) is pcDelta(g, h), not pcDelta(h, g)
            from pyrepseq.metric import WeightedLevenshtein
            from mc.refmodel import ref_wlev
            r = acc.call(pyrepseq.pcDelta_grouped_cross, df, by, "seq", condensed=True, bins=EDGES, normalize=False, metric=WeightedLevenshtein(2, 1, 1))
            pairs = list(itertools.combinations(names, 2))
            exp = [ref_hist([ref_wlev(fcol[i], fcol[j], 2, 1, 1) for i in gs[a] for j in gs[b]], EDGES) for a, b in pairs]
            if not _cmp_matrix(r, exp):
                fail("pcDelta_grouped_cross/condensed-asymmetric-metric", {"pairs": pairs, "rows": exp}, r if raised(r) else _vals(r).tolist())
                return
            acc.ok()
            # bins=0 with maxseqs: pcDelta(g, h, bins=0, maxseqs=m) is the exact pc(g, h) (no sub-sampling in the coincidence form)
            for m in (1, 2):
                r = acc.call(pyrepseq.pcDelta_grouped_cross, df, by, "seq", condensed=True, bins=0, maxseqs=m)
                exp = [[float(ref_pc2([fcol[x] for x in gs[a]], [fcol[x] for x in gs[b]]))] for a, b in pairs]
                if not _cmp_matrix(r, exp):
                    fail("pcDelta_grouped_cross/bins=0-with-maxseqs", {"pairs": pairs, "values": exp}, r if raised(r) else _vals(r).tolist(), note="maxseqs=%d" % m)
                    return
                acc.ok()
        # bins = 0 coincidence form
        acc.cls("bins=0-form")
        within = [float(ref_pc([fcol[i] for i in gs[k]])) if len(gs[k]) > 1 else NAN for k in names]
        r = acc.call(pyrepseq.pcDelta_grouped, df, by, "seq", bins=0)
        if raised(r) or _vals(r).size != len(names) or not _cmp_matrix(_vals(r).reshape(-1), within) or [tuple(x) if isinstance(x, tuple) else x for x in r.index] != names:
            fail("pcDelta_grouped/bins=0", {"names": names, "values": within}, r if raised(r) else {"shape": list(_vals(r).shape), "values": _vals(r).tolist()})
            return
        acc.ok()
        r = acc.call(pyrepseq.pcDelta_grouped_cross, df, by, "seq", bins=0)
        expm = [[within[i] if i == j else float(ref_pc2([fcol[x] for x in gs[a]], [fcol[x] for x in gs[b]])) for j, b in enumerate(names)] for i, a in enumerate(names)]
        if not _cmp_matrix(r, expm) or list(r.index) != names or list(r.columns) != names:
            fail("pcDelta_grouped_cross/square-bins=0", {"names": names, "matrix": expm}, r if raised(r) else {"names": list(r.index), "matrix": _vals(r).tolist()})
            return
        acc.ok()
    # ---- entropies
    pc_all = ref_pc(rows)
    for base in (2.0, math.e, 10.0, 0.5):
        def ent(p):
            p = float(p)
            if p != p:
                return NAN
            return (math.inf if p == 0 else -math.log(p)) / math.log(base)
        r = acc.call(pyrepseq.renyi2_entropy, df, on, base=base)
        if raised(r) or not feq(r, ent(pc_all)):
            fail("renyi2_entropy/unconditional", ent(pc_all), r, note="base=%r" % base)
            return
        acc.ok(("ren", base, round(ent(pc_all), 9) if math.isfinite(ent(pc_all)) else str(ent(pc_all))), nontrivial=pc_all > 0)
        for wname, w in weights_for(len(multi))[:3:2]:
            exp = ent(ref_conditional(keys, rows, w))
            r = acc.call(pyrepseq.renyi2_entropy, df, on, by=by, base=base, **({} if w is None else {"group_weights": w}))
            if raised(r) or not feq(r, exp):
                fail("renyi2_entropy/conditional", exp, r, note="base=%r weights=%r" % (base, w))
                return
            acc.ok()
        if n >= 4 and pc_all > 0:
            # stdrenyi2 = stdpc / (pc ln base), with stdpc the implementation's own (C06 decides stdpc itself)
            joined = np.array(["_".join(map(str, rw)) for rw in rows]) if f2col is not None else np.array(rows)
            sp = acc.call(pyrepseq.stdpc, joined)
            exp = (float(sp) / float(pc_all)) / math.log(base) if not raised(sp) else NAN
            r = acc.call(pyrepseq.stdrenyi2_entropy, df, on, base=base)
            if raised(r) or not feq(r, exp, rel=1e-9):
                fail("stdrenyi2_entropy", exp, r, note="base=%r" % base)
                return
            acc.ok()
    # the documented positional order (df, features, by, base)
    acc.cls("positional-base")
    r = acc.call(pyrepseq.renyi2_entropy, df, on, None, 10.0)
    e10 = NAN if float(pc_all) != float(pc_all) else (math.inf if pc_all == 0 else -math.log(float(pc_all)) / math.log(10.0))
    rb = acc.call(pyrepseq.renyi2_entropy, df, on, by, 10.0)
    cb = ref_conditional(keys, rows, None)
    eb = NAN if cb != cb else (math.inf if cb == 0 else -math.log(cb) / math.log(10.0))
    if raised(r) or not feq(r, e10) or raised(rb) or not feq(rb, eb):
        fail("renyi2_entropy/positional-base", (e10, eb), (r, rb))
        return
    acc.ok()
    if f2col is None:
        # a float feature in which the same number is stored as 0.0 and as -0.0 (e.g. after rounding): one value, not two
        acc.cls("negative-zero-feature")
        fl = [(0.0 if i % 2 else -0.0) if v == fcol[0] else 1.5 for i, v in enumerate(fcol)]
        dfl = df.assign(score=fl)
        for fn, args, kw, e in ((pyrepseq.renyi2_entropy, (dfl, "score"), {"base": 2.0}, math.inf if pc_all == 0 else -math.log2(float(pc_all))),
                                (pyrepseq.pc_conditional, (dfl, by, "score"), {}, ref_conditional(keys, rows, None))):
            r = acc.call(fn, *args, **kw)
            if raised(r) or not feq(r, e):
                fail("%s/float-feature-with-negative-zero" % fn.__name__, e, r, note="feature values %r" % (fl,))
                return
        acc.ok()
    r = acc.call(pyrepseq.renyi2_entropy, df, on, base=None)
    exp = math.inf if pc_all == 0 else -math.log(float(pc_all))
    if raised(r) or not feq(r, exp):
        fail("renyi2_entropy/base-none", exp, r)
        return
    acc.ok()
    if not df.equals(snapshot):
        fail("input-table-modified", "unchanged", "changed")
