"""C02 - coincidence probability pc is the exact fraction of coinciding pairs."""
import itertools
import math
from fractions import Fraction
from mc.core import Space, HarnessError, raised
from mc import enum as E
from mc.refmodel import ref_pc, ref_pc2, ref_pc_counts

ID = "C02"
RULE = ("every sequence of length N over N symbols (every multiplicity pattern in every order) under 4 relabellings and 3 "
        "containers, every pair of samples, and every small table over a collision-prone cell alphabet is evaluated with pc / "
        "pc_n / pc_joint and compared exactly (float(Fraction)) with a literal double loop; non-trivial = at least one coinciding pair")
ASSUMPTIONS = ["int/int true division is correctly rounded, so equality with float(Fraction) is exact",
               "table cells never contain the join characters '.' or '_' (outside the property); missing is spelled either '' or None/NaN, one spelling per table",
               "a 2-tuple is the legacy (alpha, beta) form and is not used as a plain sample container"]
REQUIRED_CLASSES = {"all": ["reordering", "relabelling", "table-missing-cell", "table-collision-without-separator", "two-sample", "legacy-tuple", "two-table", "two-table-mixed-missing-spelling", "negative-int-cells", "tuple-or-mixed-type-elements", "line-break-in-cell", "dataframe-subclass", "separator-like-character-in-cell"]}
MIN_OUTCOMES = 8

LABELS = {
    "str": lambda i: "s%d" % i,
    "int": lambda i: 10 + i,
    "float": lambda i: i + 0.5,
    "float-same-floor": lambda i: (0.25, 0.5, 0.75, 1.25, 1.5, 0.125, 0.625)[i],
    "mixedwidth": lambda i: ("A", "AA", "B", "AB", "BA", "AAA", "BB")[i],
}
TEXT = ("A", "AB", "BA", None)       # None = the empty/missing cell
TEXT3 = ("A", "AB", None)
SPACES = ("A", "A ", " A", " ")          # cells that differ only by leading/trailing blanks are different cells
INTS = (1, 11)
NEGS = (-1, -2, 2)        # hash(-1) == hash(-2) in CPython
FLOATS = (1000001.0, 1000002.0, 0.1234567, 0.1234568)    # differ only beyond 6 significant digits
# characters an implementation might join cells with: a cell may hold any of them except '.' and '_' (the property's exclusion)
SEPZOO = ("\x1f", "\x1e", "\t", ",", ";", "|", " ", "/", ":", "-", "\x00", "\\", "~", "#", "$", "\u00a0", "\u2028")
LINES = ("A", "A\n", "\nA", "A\r", "A\u2028B", "A\nB")      # free-text cells with line-break characters: still one cell each
EFLOATS = (1e16, 2e16, 1e-05)       # float cells whose text holds neither '.' nor '_' (1e+16, 2e+16, 1e-05); the first two are whole numbers


def spaces(tier):
    q = tier == "quick"

    def gen_seq():
        for N in range(2, (6 if q else 7) + 1):
            for t in itertools.product(range(N), repeat=N):
                yield ("seq", t)

    def gen_pairs():
        K, m = (3, 4) if q else (4, 5)
        A = list(E.lists(range(K), m))
        for a in A:
            yield ("pairs", a, K, m)

    def gen_tables():
        # (column types, max rows)
        plans = [(("t",), 4), (("i",), 4), (("t", "t"), 3), (("t", "i"), 3 if q else 4), (("i", "i"), 4), (("t3", "t3", "t3"), 2 if q else 3), (("t3", "i", "t3"), 2 if q else 3)]
        plans += [(("n",), 3), (("n", "t3"), 2 if q else 3), (("n", "n"), 2 if q else 3), (("f",), 3), (("f", "t3"), 2), (("i", "f"), 2 if q else 3), (("w",), 3), (("w", "t3"), 2), (("w", "w"), 2), (("l",), 3), (("l", "t3"), 2), (("e",), 3), (("e", "t3"), 2)]
        if not q:
            plans += [(("t", "t"), 4), (("i", "i", "i", "i"), 3), (("t3", "t3", "i", "i"), 2)]
        for types, maxrows in plans:
            alph = [TEXT if t == "t" else TEXT3 if t == "t3" else NEGS if t == "n" else FLOATS if t == "f" else SPACES if t == "w" else LINES if t == "l" else EFLOATS if t == "e" else INTS for t in types]
            rows = list(itertools.product(*alph))
            for n in range(2, maxrows + 1):
                for table in itertools.product(rows, repeat=n):
                    yield ("table", types, table)

    def gen_sep():
        for ch in SEPZOO:
            yield ("sepzoo", ch)
        for N in (800, 801, 1000, 1001, 1601, 2049):
            yield ("bigtab", N)

    def gen_two_tables():
        types = ("t3", "i")
        rows = list(itertools.product(TEXT3, INTS))
        for n1 in (1, 2):
            for n2 in (1, 2) if q else (1, 2, 3):
                for t1 in itertools.product(rows, repeat=n1):
                    for t2 in itertools.product(rows, repeat=n2):
                        yield ("tables2", types, t1, t2)
        # a float column that is all whole numbers in one table and not in the other; free-text cells with line breaks
        for types, alph in ((("t3", "e"), EFLOATS), (("t3", "l"), LINES[:4])):
            rows = list(itertools.product(TEXT3[:2], alph))
            for n1 in (1, 2):
                for n2 in (1, 2):
                    for t1 in itertools.product(rows, repeat=n1):
                        for t2 in itertools.product(rows, repeat=n2):
                            yield ("tables2", types, t1, t2)
        # a column that is missing throughout (e.g. an unsequenced chain): float64 when spelled NaN, object when spelled None / ''
        types = ("t3", "m")
        rows = list(itertools.product(TEXT3, (None,)))
        for n1 in (1, 2):
            for n2 in (1, 2):
                for t1 in itertools.product(rows, repeat=n1):
                    for t2 in itertools.product(rows, repeat=n2):
                        yield ("tables2", types, t1, t2)

    return [
        Space("all-sequences-N-over-N", gen_seq, "every sequence of length N over N symbols, N=2..6 (quick) / 2..7 (thorough) x 4 relabellings x {list, ndarray, Series}; pc, pc_n", shards=32),
        Space("all-sample-pairs", gen_pairs, "all (a,b), |a|,|b| <= 4 over 3 symbols (quick) / <= 5 over 4 symbols (thorough); one case = one a against every b"),
        Space("all-small-tables", gen_tables, "tables of 2..4 rows x 1..3(4) typed columns over text cells {A,AB,BA,empty} / {A,AB,empty} and integer cells {1,11}; empty spelled '' / None / NaN", shards=32),
        Space("separator-like-characters-in-cells", gen_sep, "for each of %d separator-like characters c: rows (AcB, C) / (A, BcC) / (Ac, B) / (A, cB) in 2- and 3-column tables (one and two tables): distinct rows never coincide; tables of 800, 801, 1000, 1001, 1601, 2049 rows (7 distinct rows cycling, the last row equal to the first)" % len(SEPZOO), per_case=True),
        Space("all-small-table-pairs", gen_two_tables, "pairs of 1..2(3)-row tables over (text{A,AB,empty}, int{1,11}) and (text, always-missing column); every pair of spellings of 'missing' (None, '', NaN) across the two tables"),
    ]


def _exact(x, frac):
    try:
        return float(x) == float(frac)
    except Exception:
        return False


def check_case(case, acc):
    import numpy as np
    import pandas as pd
    import pyrepseq
    kind = case[0]
    if kind == "seq":
        t = case[1]
        N = len(t)
        exp = ref_pc(t)
        counts = [t.count(v) for v in sorted(set(t))]
        if ref_pc_counts(counts) != exp:
            raise HarnessError("reference models disagree on %r" % (t,))
        if list(t) != sorted(t):
            acc.cls("reordering")
        nt = exp > 0
        r = acc.call(pyrepseq.pc_n, counts)
        if not _exact(r, exp):
            acc.fail("pc_n/value", ("pc_n", tuple(counts)), exp, r)
        else:
            acc.ok(("pc_n", float(exp)), nontrivial=nt)
        for counts_variant in (np.array(counts), tuple(counts), pd.Series(counts), list(reversed(counts)), counts + [0]):
            r = acc.call(pyrepseq.pc_n, counts_variant)
            if not _exact(r, exp):
                acc.fail("pc_n/container-or-zero-entries", ("pc_n", tuple(int(c) for c in counts_variant), type(counts_variant).__name__), exp, r)
            else:
                acc.ok()
        # hashable elements of other kinds: tuples (e.g. (V gene, CDR3) clonotypes) in a Series / Index / object array, and equal
        # numbers of different type (3 == 3.0 == Fraction(3)) side by side in one object container
        if N <= 5:
            from fractions import Fraction as F_
            tl = [("v%d" % i, "cdr%d" % (i % 2)) for i in t]
            arr = np.empty(N, dtype=object)
            arr[:] = tl
            mixed = [[3 + i, float(3 + i), F_(3 + i)][(pos + i) % 3] for pos, i in enumerate(t)]
            marr = np.empty(N, dtype=object)
            marr[:] = mixed
            for boxed, tag in ((pd.Series(tl), "series-of-tuples"), (pd.Index(tl, tupleize_cols=False), "index-of-tuples"), (arr, "object-array-of-tuples"),
                               (pd.Series(mixed, dtype=object), "equal-numbers-of-different-type/series"), (marr, "equal-numbers-of-different-type/object-array")):
                acc.cls("tuple-or-mixed-type-elements")
                r = acc.call(pyrepseq.pc, boxed)
                if not _exact(r, exp):
                    acc.fail("pc/one-sample/%s" % tag.split("/")[0], ("seq", t), exp, r, note=tag)
                else:
                    acc.ok()
                r = acc.call(pyrepseq.pc, boxed, boxed[::-1])
                if not _exact(r, ref_pc2(t, t[::-1])):
                    acc.fail("pc/two-sample/%s" % tag.split("/")[0], ("seq", t), ref_pc2(t, t[::-1]), r, note=tag)
                else:
                    acc.ok()
        # two-sample form with the two samples spelled differently (list vs object Series, ints vs equal floats)
        if N <= 5:
            lab = [LABELS["str"](i) for i in t]
            e2 = ref_pc2(t, t[::-1])
            for a_, b_, tag in ((lab, pd.Series(lab[::-1], dtype=object), "list-vs-object-series"), (np.array(lab), lab[::-1], "array-vs-list"),
                                ([int(i) for i in t], [float(i) for i in t[::-1]], "ints-vs-floats"), (pd.Series(lab), np.array(lab[::-1], dtype=object), "series-vs-object-array")):
                r = acc.call(pyrepseq.pc, a_, b_)
                if not _exact(r, e2):
                    acc.fail("pc/two-sample/mixed-spelling", ("pc2", tuple(lab), tuple(lab[::-1])), e2, r, note=tag)
                else:
                    acc.ok()
    # two-sample form with the very same object on both sides: cross pairs include i == j
        xs_same = np.array([LABELS["str"](i) for i in t])
        r = acc.call(pyrepseq.pc, xs_same, xs_same)
        e2 = ref_pc2(t, t)
        if not _exact(r, e2):
            acc.fail("pc/two-sample/same-object", ("pc2", tuple(xs_same.tolist()), tuple(xs_same.tolist())), e2, r)
        else:
            acc.ok()
        for lname, lab in LABELS.items():
            if N > 7:
                continue
            xs = [lab(i) for i in t]
            acc.cls("relabelling")
            for cname, box in (("list", list), ("ndarray", np.array), ("series", pd.Series)):
                r = acc.call(pyrepseq.pc, box(xs))
                if not _exact(r, exp) or not (0 <= float(r) <= 1):
                    acc.fail("pc/one-sample/%s/%s" % (lname, cname), ("pc1", tuple(xs), cname), exp, r)
                else:
                    acc.ok(("pc", float(exp)), nontrivial=nt)
    elif kind == "pc1":
        _, xs, cname = case
        box = {"list": list, "ndarray": np.array, "series": pd.Series}[cname]
        r = acc.call(pyrepseq.pc, box(list(xs)))
        exp = ref_pc(xs)
        if not _exact(r, exp):
            acc.fail("pc/one-sample/replay", case, exp, r)
        else:
            acc.ok()
    elif kind == "pc_n":
        r = acc.call(pyrepseq.pc_n, list(case[1]))
        exp = ref_pc_counts([c for c in case[1]])
        if not _exact(r, exp):
            acc.fail("pc_n/value", case, exp, r)
        else:
            acc.ok()
    elif kind == "pairs":
        _, a, K, m = case
        lab = LABELS["mixedwidth"]
        for b in E.lists(range(K), m):
            acc.cls("two-sample")
            exp = ref_pc2(a, b)
            for lname in (("str",) if len(a) + len(b) > 4 else ("str", "int", "mixedwidth")):
                l = LABELS[lname]
                xa, xb = [l(i) for i in a], [l(i) for i in b]
                if len(xa) == 2 or len(xb) == 2:
                    ca, cb = np.array(xa), np.array(xb)
                else:
                    ca, cb = xa, xb
                r = acc.call(pyrepseq.pc, ca, cb)
                if not _exact(r, exp) or not (0 <= float(r) <= 1):
                    acc.fail("pc/two-sample/%s" % lname, ("pc2", tuple(xa), tuple(xb)), exp, r)
                else:
                    acc.ok(("pc2", float(exp)), nontrivial=exp > 0)
    elif kind == "pc2":
        _, xa, xb = case
        r = acc.call(pyrepseq.pc, np.array(xa), np.array(xb))
        exp = ref_pc2(xa, xb)
        if not _exact(r, exp):
            acc.fail("pc/two-sample/replay", case, exp, r)
        else:
            acc.ok()
    elif kind == "table":
        _check_table(acc, case)
    elif kind == "table1":
        _check_table(acc, ("table",) + case[1:3], spell=case[3])
    elif kind == "sepzoo":
        _check_sep(acc, case)
    elif kind == "bigtab":
        # tables of about a thousand rows: rows cycle through 7 distinct rows, the last row repeats the first one
        import pandas as pd
        import pyrepseq
        N = case[1]
        acc.cls("table-of-about-1000-rows")
        base = [("A", "x"), ("A", "y"), ("B", "x"), ("AB", ""), ("", "AB"), ("C", "z"), ("D", "z")]
        rows = [base[(i * 3 + i // 7) % 7] for i in range(N - 1)] + [("E", "only-twice")]
        rows[0] = ("E", "only-twice")
        exp = ref_pc_counts([rows.count(r_) for r_ in set(rows)])
        other = rows[N // 2:] + [("F", "q")]
        cnt, cnt2 = {r_: rows.count(r_) for r_ in set(rows)}, {r_: other.count(r_) for r_ in set(other)}
        exp2 = Fraction(sum(c_ * cnt2.get(r_, 0) for r_, c_ in cnt.items()), len(rows) * len(other))
        df, df2 = pd.DataFrame(rows, columns=["c0", "c1"]), pd.DataFrame(other, columns=["c0", "c1"])
        for fn, args, e in (("pc", (df,), exp), ("pc_joint", (df, ["c0", "c1"]), exp), ("pc", (df, df2), exp2), ("pc", (df2, df), exp2), ("pc_joint", (df, ["c0", "c1"], df2), exp2),
                            ("pc", (([r_[0] for r_ in rows], [r_[1] for r_ in rows]),), exp)):
            r = acc.call(getattr(pyrepseq, fn), *args)
            if not _exact(r, e):
                acc.fail("%s/table-of-about-1000-rows" % fn, case, e, r, note="%d rows" % N)
                return
        acc.ok(("bigtab", N, float(exp)), nontrivial=True)
    elif kind == "tables2":
        _check_tables2(acc, case)
    else:
        raise HarnessError("unknown case %r" % (case,))


def _mk(types, table, spell):
    import numpy as np
    import pandas as pd
    cols = {}
    for ci, t in enumerate(types):
        vals = [row[ci] for row in table]
        if spell == "empty-string":
            vals = ["" if v is None else v for v in vals]
        elif spell == "nan":
            vals = [np.nan if v is None else v for v in vals]
        elif spell == "none-and-nan":
            # both spellings of 'missing' side by side in one object column: still one distinct empty value
            k = [0]

            def alt(v):
                if v is not None:
                    return v
                k[0] += 1
                return None if k[0] % 2 else np.nan
            vals = np.array([alt(v) for v in vals], dtype=object)
        cols["c%d" % ci] = vals
    return pd.DataFrame(cols)


def _check_table(acc, case, spell=None):
    import pyrepseq
    _, types, table = case
    n = len(table)
    has_missing = any(v is None for row in table for v in row)
    exp = ref_pc(table)
    nt = exp > 0
    joined = ["".join("" if v is None else str(v) for v in row) for row in table]
    if ref_pc(joined) != exp:
        acc.cls("table-collision-without-separator")
    if "n" in types:
        acc.cls("negative-int-cells")
    if "l" in types:
        acc.cls("line-break-in-cell")
    counts = [list(table).count(r) for r in set(table)]
    cols = ["c%d" % i for i in range(len(types))]
    spells = (("none", "empty-string", "nan", "none-and-nan") if has_missing else ("none",)) if spell is None else (spell,)
    for sp in spells:
        if has_missing:
            acc.cls("table-missing-cell")
        df = _mk(types, table, sp)
        rcase = ("table1", types, table, sp)
        r = acc.call(pyrepseq.pc, df)
        if not _exact(r, exp):
            acc.fail("pc/table/%s" % ("missing-cell" if has_missing else "complete"), rcase, exp, r)
        else:
            acc.ok(("pct", float(exp)), nontrivial=nt)
        r = acc.call(pyrepseq.pc_joint, df, cols)
        if not _exact(r, exp):
            acc.fail("pc_joint/%s%s" % ("missing-cell" if has_missing else "complete", "/raised-" + r.type if raised(r) else ""), rcase, exp, r)
        else:
            acc.ok(("pcj", float(exp)), nontrivial=nt)
        r = acc.call(pyrepseq.pc_joint, df, cols, gap_token="|")
        if not _exact(r, exp):
            acc.fail("pc_joint/gap_token", rcase, exp, r)
        else:
            acc.ok()
        # sub-selection of columns: pc_joint on a subset == pc of the projected rows
        if len(types) > 1:
            sub = cols[:-1]
            e2 = ref_pc([row[:-1] for row in table])
            r = acc.call(pyrepseq.pc_joint, df, sub)
            if not _exact(r, e2):
                acc.fail("pc_joint/column-subset%s" % ("/raised-" + r.type if raised(r) else ""), rcase, e2, r)
            else:
                acc.ok()
    # a table class derived from DataFrame (project-specific table types; here one that also records writes to itself)
    from mc.canon import guarded_frame
    acc.cls("dataframe-subclass")
    g = guarded_frame(_mk(types, table, "none"))
    for fn, args in (("pc", (g,)), ("pc_joint", (g, cols)), ("pc", (g, guarded_frame(_mk(types, table, "none"))))):
        r = acc.call(getattr(pyrepseq, fn), *args)
        e = exp if len(args) == 1 or fn == "pc_joint" else ref_pc2(table, table)
        if not _exact(r, e) or g._verif_writes:
            acc.fail("%s/table/dataframe-subclass%s" % (fn, "/written-to" if g._verif_writes else ""), ("table1", types, table, "none"), e, r, note="writes: %r" % (g._verif_writes,))
            break
    else:
        acc.ok()
    r = acc.call(pyrepseq.pc_n, counts)
    if not _exact(r, exp):
        acc.fail("pc_n/value", ("pc_n", tuple(counts)), exp, r)
    else:
        acc.ok()
    # legacy tuple form: two text columns without missing cells
    if types == ("t", "t") and not has_missing:
        acc.cls("legacy-tuple")
        r = acc.call(pyrepseq.pc, ([row[0] for row in table], [row[1] for row in table]))
        if not _exact(r, exp):
            acc.fail("pc/legacy-tuple", case, exp, r)
        else:
            acc.ok()


def _check_sep(acc, case):
    import pandas as pd
    import pyrepseq
    ch = case[1]
    acc.cls("separator-like-character-in-cell")
    rows2 = [("A" + ch + "B", "C"), ("A", "B" + ch + "C"), ("A" + ch, "B"), ("A", ch + "B"), ("A", "B")]
    rows3 = [("A", ch, "B"), ("A" + ch, "", "B"), ("A", "", ch + "B"), ("A", ch + ch, "B")]
    for rows in (rows2, rows3):
        for sub in itertools.combinations(range(len(rows)), 2):
            tab = [rows[i] for i in sub] + [rows[sub[0]]]           # two distinct rows, the first one twice
            cols = ["c%d" % i for i in range(len(tab[0]))]
            df = pd.DataFrame(tab, columns=cols)
            exp = ref_pc(tab)
            exp2 = ref_pc2(tab, tab[:2])
            for fn, args, e in (("pc", (df,), exp), ("pc_joint", (df, cols), exp), ("pc", (df, df.iloc[:2]), exp2), ("pc_joint", (df, cols, df.iloc[:2]), exp2)):
                r = acc.call(getattr(pyrepseq, fn), *args)
                if not _exact(r, e):
                    acc.fail("%s/table/separator-like-character-in-cell" % fn, case, e, r, note="rows %r" % (tab,))
                    return
            acc.ok()


def _check_tables2(acc, case):
    import pyrepseq
    _, types, t1, t2 = case
    acc.cls("two-table")
    exp = ref_pc2(t1, t2)
    has_missing = any(v is None for row in t1 + t2 for v in row)
    cols = ["c%d" % i for i in range(len(types))]
    # the two tables need not spell 'missing' the same way (None / '' / NaN, which also changes the column dtype)
    for sp, sp2 in (tuple(itertools.product(("none", "empty-string", "nan"), repeat=2)) if has_missing else (("none", "none"),)):
        if sp != sp2:
            acc.cls("two-table-mixed-missing-spelling")
        d1, d2 = _mk(types, t1, sp), _mk(types, t2, sp2)
        r = acc.call(pyrepseq.pc, d1, d2)
        if not _exact(r, exp):
            acc.fail("pc/two-tables", case, exp, r)
        else:
            acc.ok(("pct2", float(exp)), nontrivial=exp > 0)
        # every single column selected alone: the joint form on one column is pc of that column of the two tables
        for ci in range(len(cols)):
            e1 = ref_pc2([(row[ci],) for row in t1], [(row[ci],) for row in t2])
            r = acc.call(pyrepseq.pc_joint, d1, [cols[ci]], d2)
            if not _exact(r, e1):
                acc.fail("pc_joint/two-tables/single-column-selected", case, e1, r, note="on=[%s], missing spelled %s / %s" % (cols[ci], sp, sp2))
                return
        # the second table may store the same named columns in another physical order
        d2r = d2[list(d2.columns)[::-1]]
        r = acc.call(pyrepseq.pc_joint, d1, cols, d2r)
        if not _exact(r, exp):
            acc.fail("pc_joint/two-tables/column-order-of-second-table", case, exp, r)
        else:
            acc.ok()
        for gt in (None, "|", ""):
            if gt == "" and True:
                continue    # an empty join token is outside the property (cells could run together)
            r = acc.call(pyrepseq.pc_joint, d1, cols, d2, **({} if gt is None else {"gap_token": gt}))
            if not _exact(r, exp):
                acc.fail("pc_joint/two-tables%s%s" % ("/gap_token" if gt else "", "/raised-" + r.type if raised(r) else ""), case, exp, r)
            else:
                acc.ok()
