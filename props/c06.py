"""C06 - pc and its variance estimator are unbiased under multinomial sampling."""
import itertools
import math
from fractions import Fraction
from mc.core import Space, HarnessError, raised
from mc import enum as E
from mc.refmodel import ref_pc_counts, feq

ID = "C06"
RULE = ("for fixed (N,K) the multinomial family is complete, so E_p[f(n)] = G(p) for all p  <=>  M(n) f(n) = [p^n] G(p)(sum p)^(N-deg G) "
        "for every count vector n; every composition n of N into K parts (zeros included) is enumerated, the polynomial coefficients are "
        "obtained by explicit polynomial multiplication in exact rationals, and pc_n / pc / varpc_n / stdpc_n / stdpc are evaluated on n "
        "(exactly on Fraction object arrays, and on integer arrays to 1e-12); non-trivial = count vector with at least one n_i >= 2")
ASSUMPTIONS = ["large counts are given in NumPy's default integer dtype (int64), as lists or as float64; narrower integer dtypes (int32/uint32) wrap in NumPy arithmetic by design and are outside the bound",
               "identity in p decided for the enumerated (N,K) only; larger N,K not covered",
               "float results on integer arrays are compared with the exact rational value to 1e-12 (relative and absolute)"]
REQUIRED_CLASSES = {"all": ["count-vector-with-zero", "variance-checked", "two-sample", "negative-variance-estimate", "exact-fraction-path", "large-counts", "narrow-dtype-labels", "nan-as-a-label"]}
MIN_OUTCOMES = 8


def poly_mul(a, b):
    out = {}
    for ea, ca in a.items():
        for eb, cb in b.items():
            e = tuple(x + y for x, y in zip(ea, eb))
            out[e] = out.get(e, 0) + ca * cb
    return out


def poly_pow(a, n, K):
    out = {(0,) * K: 1}
    for _ in range(n):
        out = poly_mul(out, a)
    return out


_cache = {}


def polys(N, K):
    """coefficients of (sum p^2)(sum p)^(N-2) and (sum p^2)^2 (sum p)^(N-4), and multinomial coefficients M(n)."""
    key = (N, K)
    if key not in _cache:
        unit = lambda i, d: tuple(d if j == i else 0 for j in range(K))
        s1 = {unit(i, 1): 1 for i in range(K)}
        s2 = {unit(i, 2): 1 for i in range(K)}
        M = poly_pow(s1, N, K)
        g2 = poly_mul(s2, poly_pow(s1, N - 2, K))
        g4 = poly_mul(poly_mul(s2, s2), poly_pow(s1, N - 4, K)) if N >= 4 else None
        lin = [poly_mul({unit(i, 1): 1}, poly_pow(s1, N - 1, K)) for i in range(K)]   # p_i (sum p)^(N-1)
        _cache[key] = (M, g2, g4, lin)
    return _cache[key]


def spaces(tier):
    q = tier == "quick"

    def gen_one():
        nmax = {1: 10, 2: 10, 3: 10, 4: 10} if q else {1: 40, 2: 40, 3: 30, 4: 22, 5: 16, 6: 12}
        for K in sorted(nmax):
            for N in range(2, nmax[K] + 1):
                yield ("NK", N, K)

    def gen_two():
        for K in range(1, (3 if q else 4) + 1):
            top = 6 if q else (10 if K <= 3 else 7)
            for N1 in range(1, top + 1):
                for N2 in range(1, top + 1):
                    yield ("NK2", N1, N2, K)

    def gen_mag():
        big = (255, 256, 55108, 55109, 65535, 65536, 2 ** 21 - 1, 2 ** 21 + 3, 3000000, 2 ** 31 - 1)
        for b in big:
            for rest in ((1,), (3, 2), (b,), (b - 1, 7), (1000, 40, 3)):
                if b + sum(rest) <= 2 ** 31:       # stated bound: total sample size up to 2^31 (N(N-1) itself leaves int64 at 3.04e9)
                    yield ("mag", (b,) + rest)

    def gen_nan():
        for N in (9, 1000, 1001, 1500, 2049):
            yield ("nanlabels", N)

    return [
        Space("large-samples-with-a-missing-label", gen_nan, "float label vectors of 9, 1000, 1001, 1500, 2049 draws in which NaN occurs as a label (one category): pc / stdpc of the sample against pc_n / varpc_n of its counts", per_case=True),
        Space("magnitude-boundary-family", gen_mag, "count vectors with an entry at 2^8, 55108/55109 (cube root / square root thresholds of int64), 2^16, 2^21, 3e6, 2^31-1 combined with 5 small/large companions (total sample size <= 2^31): integer-array path against the exact Fraction path of the same functions"),
        Space("one-sample-all-count-vectors", gen_one, "every composition of N into K parts: K<=4, N=2..10 (quick); N<=40 (K<=2), 30 (K=3), 22 (K=4), 16 (K=5), 12 (K=6) (thorough)", per_case=True),
        Space("two-sample-all-count-vector-pairs", gen_two, "every pair of compositions: N1,N2<=6, K<=3 (quick); <=10 for K<=3, <=7 for K=4 (thorough)", per_case=True),
    ]


def check_case(case, acc):
    import numpy as np
    import pyrepseq
    kind = case[0]
    if kind == "NK":
        _, N, K = case
        M, g2, g4, lin = polys(N, K)
        for n in E.compositions(N, K):
            _check_vector(acc, n, M, g2, g4)
    elif kind == "vec":
        n = case[1]
        M, g2, g4, lin = polys(sum(n), len(n))
        _check_vector(acc, n, M, g2, g4)
    elif kind == "mag":
        _check_magnitude(acc, case[1])
    elif kind == "nanlabels":
        # a missing label is one category (as np.unique and the table forms treat it), also in samples of more than 1000 draws
        N = case[1]
        acc.cls("nan-as-a-label")
        vals = (0.5, float("nan"), 1.5, 0.5, 2.5, float("nan"), 0.5)
        sample = np.array([vals[(i * 3 + i // 7) % 7] for i in range(N)])
        cnt = {}
        for v in sample.tolist():
            k_ = "nan" if v != v else v
            cnt[k_] = cnt.get(k_, 0) + 1
        merged = sorted(cnt.values())
        nnan = cnt.get("nan", 0)
        distinct = sorted([c for k_, c in cnt.items() if k_ != "nan"] + [1] * nnan)
        # whether missing labels form ONE category (NumPy's np.unique, the table forms) or are all different from each other (Python's
        # NaN != NaN) is not stated for plain label vectors: either reading is accepted, but pc and stdpc must follow the same one
        r = acc.call(pyrepseq.pc, sample)
        s_ = acc.call(pyrepseq.stdpc, sample)
        ok = False
        e_pc = ref_pc_counts(merged)
        for counts in (merged, distinct):
            v_ = acc.call(pyrepseq.varpc_n, np.array(counts))
            root = math.sqrt(float(v_)) if not raised(v_) and float(v_) >= 0 else float("nan")
            if not raised(r) and float(r) == float(ref_pc_counts(counts)) and not raised(s_) and feq(s_, root, rel=1e-12, abs_=0.0):
                ok = True
        if not ok:
            acc.fail("stdpc/sample-with-nan-label", case, {"pc": float(e_pc), "or": float(ref_pc_counts(distinct))}, (r, s_), note="counts with NaN as one category %r" % (merged,))
            return
        acc.ok(("nan", N, float(e_pc)), nontrivial=True)
    elif kind == "NK2":
        _, N1, N2, K = case
        M1, _, _, lin1 = polys(N1, K) if N1 >= 2 else (_M(N1, K), None, None, _lin(N1, K))
        M2, _, _, lin2 = polys(N2, K) if N2 >= 2 else (_M(N2, K), None, None, _lin(N2, K))
        for n1 in E.compositions(N1, K):
            for n2 in E.compositions(N2, K):
                _check_pair(acc, n1, n2, M1, M2, lin1, lin2)
    elif kind == "vec2":
        n1, n2 = case[1], case[2]
        K = len(n1)
        N1, N2 = sum(n1), sum(n2)
        _check_pair(acc, n1, n2, _M(N1, K), _M(N2, K), _lin(N1, K), _lin(N2, K))
    else:
        raise HarnessError("unknown case %r" % (case,))


def _check_magnitude(acc, n):
    """large counts: the polynomial identity cannot be expanded, but the implementation run on exact Fractions is the same
    formula without rounding or overflow (validated against the identity on every small vector), so the integer path must agree"""
    import numpy as np
    import pyrepseq
    acc.cls("large-counts")
    case = ("mag", n)
    fr = np.array([Fraction(x) for x in n], dtype=object)
    exact_pc = ref_pc_counts(n)
    if acc.call(pyrepseq.pc_n, fr) != exact_pc:
        acc.fail("pc_n/large-counts-exact-path", case, exact_pc, "differs")
        return
    for arr, tag in ((np.array(n, dtype=np.int64), "int64"), (list(n), "list"), (np.array(n, dtype=float), "float64")):
        r = acc.call(pyrepseq.pc_n, arr)
        if raised(r) or not feq(r, float(exact_pc), rel=1e-12):
            acc.fail("pc_n/large-counts", case, exact_pc, r, note=tag)
            return
        acc.ok()
    if sum(n) < 4:
        return
    exact_var = acc.call(pyrepseq.varpc_n, fr)
    if raised(exact_var):
        acc.fail("varpc_n/large-counts-exact-path", case, "a value", exact_var)
        return
    for arr, tag in ((np.array(n, dtype=np.int64), "int64"), (np.array(n, dtype=float), "float64")):
        r = acc.call(pyrepseq.varpc_n, arr)
        # the variance is a difference of terms of size ~pc^2 <= 1: absolute tolerance 1e-12
        if raised(r) or not feq(r, float(exact_var), rel=1e-9, abs_=1e-12):
            acc.fail("varpc_n/large-counts", case, float(exact_var), r, note=tag)
            return
        s = acc.call(pyrepseq.stdpc_n, arr)
        root = math.sqrt(float(r)) if float(r) >= 0 else float("nan")
        if raised(s) or not feq(s, root, rel=1e-12, abs_=0.0):
            acc.fail("stdpc_n/large-counts", case, root, s, note=tag)
            return
        acc.ok(("mag", tag, float(exact_var)), nontrivial=True)


def _M(N, K):
    s1 = {tuple(1 if j == i else 0 for j in range(K)): 1 for i in range(K)}
    return poly_pow(s1, N, K)


def _lin(N, K):
    s1 = {tuple(1 if j == i else 0 for j in range(K)): 1 for i in range(K)}
    return [poly_mul({tuple(1 if j == i else 0 for j in range(K)): 1}, poly_pow(s1, N - 1, K)) for i in range(K)]


def _check_vector(acc, n, M, g2, g4):
    import numpy as np
    import pyrepseq
    N = sum(n)
    acc.cases += 0
    if 0 in n:
        acc.cls("count-vector-with-zero")
    nt = any(x >= 2 for x in n)
    case = ("vec", n)
    mult = M[n]
    target_pc = Fraction(g2.get(n, 0), mult)          # the unique unbiased estimator of sum p^2 at n
    if target_pc != ref_pc_counts(n):
        raise HarnessError("polynomial model and double-loop model disagree at %r" % (n,))
    # (i) pc_n on integers (exact: one correctly rounded quotient) and on Fractions (exact end to end)
    r = acc.call(pyrepseq.pc_n, list(n))
    if raised(r) or float(r) != float(target_pc):
        acc.fail("pc_n/biased", case, target_pc, r, note="M(n) f(n) != [p^n] (sum p^2)(sum p)^(N-2)")
    else:
        acc.ok(("pc_n", float(target_pc)), nontrivial=nt)
    fr = np.array([Fraction(x) for x in n], dtype=object)
    r = acc.call(pyrepseq.pc_n, fr)
    acc.cls("exact-fraction-path")
    if raised(r) or r != target_pc:
        acc.fail("pc_n/biased-exact-path", case, target_pc, r)
    else:
        acc.ok()
    sample = [i for i, c in enumerate(n) for _ in range(c)]
    sample = sample[1::2] + sample[0::2]     # not sorted
    r = acc.call(pyrepseq.pc, sample)
    if raised(r) or float(r) != float(target_pc):
        acc.fail("pc/biased", case, target_pc, r)
    else:
        acc.ok()
    # the same draw with non-integral float labels sharing their integer part, and as rows of a paired-chain table in which
    # the categories differ only by *which* cell is missing
    flab = (0.25, 0.5, 0.75, 1.25, 1.5, 1.75)
    r = acc.call(pyrepseq.pc, np.array([flab[i] for i in sample]))
    if raised(r) or float(r) != float(target_pc):
        acc.fail("pc/biased/float-labels", case, target_pc, r)
    else:
        acc.ok()
    if len(n) <= 5 and N <= 8:
        import pandas as pd
        # categories that are (V gene, CDR3) tuples held in a Series
        tl = pd.Series([("v%d" % i, "c%d" % (i % 2)) for i in sample])
        r = acc.call(pyrepseq.pc, tl)
        if raised(r) or float(r) != float(target_pc):
            acc.fail("pc/biased/tuple-labels", case, target_pc, r)
        else:
            acc.ok()
        rows = (("X", None), (None, "X"), ("X", "X"), (None, None), ("Y", None))
        df = pd.DataFrame({"CDR3A": [rows[i][0] for i in sample], "CDR3B": [rows[i][1] for i in sample]})
        r = acc.call(pyrepseq.pc, df)
        if raised(r) or float(r) != float(target_pc):
            acc.fail("pc/biased/table-rows-with-missing-cells", case, target_pc, r)
        else:
            acc.ok()
        # categories that are float-valued ids differing only beyond the sixth significant digit
        ids = (1234567.0, 1234568.0, 1234569.0, 0.1234567, 0.1234568)
        df = pd.DataFrame({"clone": [ids[i] for i in sample], "chain": ["B"] * len(sample)})
        r = acc.call(pyrepseq.pc, df)
        if raised(r) or float(r) != float(target_pc):
            acc.fail("pc/biased/table-rows-with-float-ids", case, target_pc, r)
        else:
            acc.ok()
    if N < 4:
        return
    # (iii) varpc_n is the unique unbiased estimator of Var(pc) = E[pc^2] - (sum p^2)^2
    acc.cls("variance-checked")
    target_var = target_pc ** 2 - Fraction(g4.get(n, 0), mult)
    if target_var < 0:
        acc.cls("negative-variance-estimate")
    r = acc.call(pyrepseq.varpc_n, fr)
    if raised(r) or r != target_var:
        acc.fail("varpc_n/biased-exact-path", case, target_var, r, note="M(n) varpc_n(n) != M(n) pc(n)^2 - [p^n](sum p^2)^2 (sum p)^(N-4)")
    else:
        acc.ok(("var", float(target_var)), nontrivial=nt)
    arr = np.array(n)
    r = acc.call(pyrepseq.varpc_n, arr)
    if raised(r) or not feq(r, float(target_var)):
        acc.fail("varpc_n/biased", case, target_var, r)
    else:
        acc.ok()
    # (iv) wrappers: the square root of what varpc_n returns for the same counts (NaN when that float is negative,
    # which also happens for an exact variance of 0 evaluated a few ulp below zero - not a defect, see DESIGN.md section 7)
    s = acc.call(pyrepseq.stdpc_n, arr)
    s2 = acc.call(pyrepseq.stdpc, np.array(sample))
    vf = float(r)
    root = math.sqrt(vf) if vf >= 0 else float("nan")
    ok = (not raised(s)) and feq(s, root, rel=1e-12, abs_=0.0) and (not raised(s2)) and feq(s2, root, rel=1e-12, abs_=0.0)
    # the same draw with its labels (category codes, in drawing order) held in small signed / unsigned integer dtypes
    for dt in (np.uint8, np.uint32, np.int8):
        s3 = acc.call(pyrepseq.stdpc, np.array(sample, dtype=dt))
        p3 = acc.call(pyrepseq.pc, np.array(sample, dtype=dt))
        acc.cls("narrow-dtype-labels")
        if raised(s3) or not feq(s3, root, rel=1e-12, abs_=0.0) or raised(p3) or float(p3) != float(target_pc):
            acc.fail("stdpc/labels-in-small-integer-dtype", case, (float(target_pc), root), (p3, s3), note=dt.__name__)
            return
    if ok and target_var > Fraction(1, 10 ** 6):
        ok = feq(s, math.sqrt(float(target_var)), rel=1e-9)
    if not ok:
        acc.fail("stdpc/not-sqrt-of-varpc_n", case, "sqrt(%s) = %r" % (target_var, root), (s, s2))
    else:
        acc.ok()


def _check_pair(acc, n1, n2, M1, M2, lin1, lin2):
    import numpy as np
    import pyrepseq
    acc.cls("two-sample")
    K = len(n1)
    N1, N2 = sum(n1), sum(n2)
    # E[pc(a,b)] = sum_i p_i q_i  <=>  M1(n1) M2(n2) f = sum_i [p^n1] p_i (sum p)^(N1-1) * [q^n2] q_i (sum q)^(N2-1)
    num = sum(lin1[i].get(n1, 0) * lin2[i].get(n2, 0) for i in range(K))
    target = Fraction(num, M1[n1] * M2[n2])
    a = [i for i, c in enumerate(n1) for _ in range(c)]
    b = [i for i, c in enumerate(n2) for _ in range(c)][::-1]
    r = acc.call(pyrepseq.pc, np.array(a), np.array(b))
    if raised(r) or float(r) != float(target):
        acc.fail("pc/two-sample-biased", ("vec2", n1, n2), target, r)
    else:
        acc.ok(("pc2", float(target)), nontrivial=target > 0)
    # the same draw with the two samples in different containers / numeric types
    import pandas as pd
    sl = ("a", "b", "c", "d", "e")
    for a_, b_, tag in (([sl[i] for i in a], pd.Series([sl[i] for i in b], dtype=object), "list-vs-object-series"),
                        (np.array(a), np.array(b, dtype=float), "ints-vs-floats")):
        r = acc.call(pyrepseq.pc, a_, b_)
        if raised(r) or float(r) != float(target):
            acc.fail("pc/two-sample-biased/mixed-spelling", ("vec2", n1, n2), target, r, note=tag)
        else:
            acc.ok()
    # the same draw with string labels of different widths, one a prefix of another
    lab = ("x1", "x10", "x2", "x", "x100")
    r = acc.call(pyrepseq.pc, np.array([lab[i] for i in a]), np.array([lab[i] for i in b]))
    if raised(r) or float(r) != float(target):
        acc.fail("pc/two-sample-biased/variable-width-labels", ("vec2", n1, n2), target, r)
    else:
        acc.ok()
