"""C19 - summaries and plots encode the data faithfully (headless Agg, artists read back)."""
import itertools
import math
import re
from mc.core import Space, HarnessError, raised
from mc import enum as E
from mc.refmodel import ref_lev, feq
from mc.seams import explore_choices, rng_seam

ID = "C19"
RULE = ("seqs_to_regex / seqs_to_consensus / seqlogos on every list of 1..3 equal-length sequences over {C,A,S,-}: the regex language over the "
        "alphabet up to the length bound must equal the product of observed residue sets; rankfrequency on every vector over {1,2,3,NaN} x flags: "
        "Line2D data read back; labels_to_colors_* under the RNG seam (every permutation shuffle can produce); density_scatter on every point "
        "multiset of a 2x2 grid; similarity_clustermap on small paired / single-chain tables: returned linkage/cluster vs scipy on own distances, "
        "heat-map matrix vs alpha (below) / beta (above) distances in dendrogram order; non-trivial = data with at least two distinct values")
ASSUMPTIONS = ["pixels are never inspected, only artist data", "pyplot's figure registry is environment: plt.close('all') after every call",
               "align=True paths need the external mafft-linsi binary (absent) and are outside the quantifier"]
REQUIRED_CLASSES = {"all": ["gapped-column", "regex-language-checked", "nan-in-counts", "rare-label-black", "every-shuffle-permutation", "repeated-point", "clustermap-paired", "clustermap-single-chain", "shifted-index", "chain-boundary-shift-rows", "zero-in-counts", "non-integer-coordinates", "unsigned-counts", "same-list-edited-in-place", "dot-gaps", "partial-cluster_kws", "falsy-column-label", "axes-not-current"]}
MIN_OUTCOMES = 10
SINGLE_THREAD_RAPIDFUZZ = True
CD = ("CA", "CS", "AS")


def spaces(tier):
    q = tier == "quick"

    def gen_regex():
        for L in (1, 2, 3):
            seqs_all = ["".join(t) for t in itertools.product("CAS-", repeat=L)]
            for n in (1, 2, 3):
                if q and L == 3 and n == 3:
                    continue
                for lst in itertools.product(seqs_all, repeat=n):
                    if all(any(s[i] != "-" for s in lst) for i in range(L)):
                        yield ("regex", lst)

    def gen_logo():
        for L in (1, 2):
            seqs_all = ["".join(t) for t in itertools.product("CA", repeat=L)]
            for n in (1, 2, 3):
                for lst in itertools.product(seqs_all, repeat=n):
                    yield ("logo", lst)
        if not q:
            for lst in itertools.product(["".join(t) for t in itertools.product("CA", repeat=3)], repeat=2):
                yield ("logo", lst)

    def gen_rank():
        vals = (0, 1, 2, 3, None)
        for n in range(1, 5):
            for v in itertools.product(vals, repeat=n):
                yield ("rank", v)

    def gen_colors():
        for n in range(1, 5 if q else 6):
            for lab in itertools.product(range(3), repeat=n):
                yield ("colors", lab)
        for nlab in (20, 21, 27):
            yield ("colors-many", nlab)

    def gen_scatter():
        pts = [(0, 0), (0, 1), (1, 0), (1, 1)]
        for n in range(1, 5):
            for ms in itertools.product(range(4), repeat=n):
                yield ("scatter", ms)

    def gen_cmap():
        rows = list(itertools.product(range(3), range(3)))
        count = 0
        for n in (3, 4) if q else (3, 4, 5):
            for ci, tab in enumerate(itertools.product(rows, repeat=n)):
                stride = {3: 9 if q else 3, 4: 211 if q else 37, 5: 997}[n]
                if ci % stride != 1:
                    continue
                yield ("cmap", tab)
        # residues can shift across the chain boundary: Levenshtein(alpha+'_'+beta) < lev(alpha) + lev(beta)
        srows = [(0, 0), (1, 1), (2, 2), (0, 2), (2, 0)]
        for tab in itertools.product(srows, repeat=3):
            if len(set(tab)) == 3 and sum(a * 3 + b for a, b in tab) % (3 if q else 1) == 0:
                yield ("cmap-shift", tab)

    return [
        Space("regex-consensus-all-lists", gen_regex, "lists of 1..3 sequences of equal length 1..3 over {C,A,S,-}, every column holding a residue (quick: without 3x3)", shards=64),
        Space("seqlogos-count-matrix", gen_logo, "lists of 1..3 sequences of length 1..2 over {C,A} (thorough: + pairs of length 3)"),
        Space("rankfrequency", gen_rank, "vectors of 1..4 values from {0,1,2,3,NaN} x normalize_x x normalize_y x scale in {1,2}"),
        Space("label-colours-rng-seam", gen_colors, "label vectors of length 1..4(5) over 3 labels (strings and ints) x min_count in {None,1,2,3} x hls/tableau x every shuffle permutation"),
        Space("density_scatter-discrete", gen_scatter, "point sequences of 1..4 points on three 4-point grids (integer, half-integer, negative) x sort in {True, False}"),
        Space("similarity_clustermap", gen_cmap, "tables of 3..4(5) rows over 3x3 CDR3 pairs (fixed-stride thinning) x {paired, alpha only, beta only} x index {default, shifted} x metadata column", shards=48),
    ]


def check_case(case, acc):
    import numpy as np
    import pandas as pd
    import matplotlib
    import matplotlib.pyplot as plt
    import pyrepseq
    import pyrepseq.plotting as P
    kind = case[0]
    try:
        if kind == "regex":
            _regex(acc, case)
        elif kind == "logo":
            _logo(acc, case)
        elif kind == "rank":
            _rank(acc, case)
        elif kind == "colors":
            _colors(acc, case)
        elif kind == "colors-many":
            _colors_many(acc, case)
        elif kind == "scatter":
            _scatter(acc, case)
        elif kind in ("cmap", "cmap-shift"):
            _cmap(acc, case)
        else:
            raise HarnessError("unknown case %r" % (case,))
    finally:
        plt.close("all")


def _regex(acc, case):
    import pyrepseq
    seqs = list(case[1])
    L = len(seqs[0])
    n = len(seqs)
    gapped = [any(s[i] == "-" for s in seqs) for i in range(L)]
    if any(gapped):
        acc.cls("gapped-column")
    obs = [sorted({s[i] for s in seqs if s[i] != "-"}) for i in range(L)]
    r = acc.call(pyrepseq.seqs_to_regex, seqs, align=False)
    if raised(r) or not isinstance(r, str):
        acc.fail("seqs_to_regex/raised", case, "a regular expression", r)
        return
    if any(gapped):
        # the other gap spelling ('.'): same expression
        acc.cls("dot-gaps")
        rd = acc.call(pyrepseq.seqs_to_regex, [s.replace("-", ".") for s in seqs], align=False)
        if raised(rd) or rd != r:
            acc.fail("seqs_to_regex/dot-gap-spelling", case, r, rd)
            return
    try:
        rx = re.compile(r)
    except re.error as e:
        acc.fail("seqs_to_regex/not-a-regex", case, "a valid regular expression", r)
        return
    for s in seqs:
        if not rx.fullmatch(s.replace("-", "")):
            acc.fail("seqs_to_regex/input-not-matched", case, "fullmatch of %r" % s.replace("-", ""), r)
            return
    # language over {C,A,S,D} up to length L+1 == product of observed residue sets (optional where gapped)
    lang = {""}
    for i in range(L):
        nxt = set()
        for pre in lang:
            for ch in obs[i]:
                nxt.add(pre + ch)
            if gapped[i]:
                nxt.add(pre)
        lang = nxt
    acc.cls("regex-language-checked")
    for m in range(0, L + 2):
        for t in itertools.product("CASD", repeat=m):
            w = "".join(t)
            if bool(rx.fullmatch(w)) != (w in lang):
                acc.fail("seqs_to_regex/language", case, "accepts exactly %s" % sorted(lang)[:12], {"regex": r, "word": w, "accepted": bool(rx.fullmatch(w))})
                return
    acc.ok(("regex", r), nontrivial=len(lang) > 1)
    # the caller's list edited in place and summarised again: the second summary is that of the new contents
    if n >= 2 and not any(gapped):
        acc.cls("same-list-edited-in-place")
        work = list(seqs)
        acc.call(pyrepseq.seqs_to_consensus, work, align=False)
        acc.call(pyrepseq.seqs_to_regex, work, align=False)
        new0 = "".join("S" if ch != "S" else "C" for ch in work[0])
        work[0] = new0
        r2 = acc.call(pyrepseq.seqs_to_regex, work, align=False)
        c2 = acc.call(pyrepseq.seqs_to_consensus, work, align=False)
        fresh_r, fresh_c = acc.call(pyrepseq.seqs_to_regex, list(work), align=False), acc.call(pyrepseq.seqs_to_consensus, list(work), align=False)
        if raised(r2) or r2 != fresh_r or not re.compile(r2).fullmatch(new0) or c2 != fresh_c:
            acc.fail("seqs_to_regex/same-list-edited-in-place", case, {"regex": fresh_r, "consensus": fresh_c}, {"regex": r2, "consensus": c2}, note="first element replaced by %r" % new0)
            return
        acc.ok()
    if any(gapped):
        # pre-aligned input with gaps: the consensus is made of residues only - in column order, a most frequent residue of each
        # column, where a column that holds gaps may be left out (which gap-rich columns are dropped is not part of the property)
        acc.cls("consensus-of-gapped-input")
        c = acc.call(pyrepseq.seqs_to_consensus, seqs, align=False)
        modes = []
        for i in range(L):
            col = [s[i] for s in seqs if s[i] != "-"]
            best = max(col.count(ch) for ch in set(col))
            modes.append({ch for ch in set(col) if col.count(ch) == best})
        okc = (not raised(c)) and isinstance(c, str) and "-" not in c and "." not in c
        if okc:
            reach = {0}
            for i in range(L):
                nxt = set()
                for p in reach:
                    if gapped[i]:
                        nxt.add(p)
                    if p < len(c) and c[p] in modes[i]:
                        nxt.add(p + 1)
                reach = nxt
            okc = len(c) in reach
        if not okc:
            acc.fail("seqs_to_consensus/gapped-input", case, "most frequent residues %s in column order (gapped columns optional)" % [sorted(m) for m in modes], c)
            return
        acc.ok()
    if not any(gapped):
        c = acc.call(pyrepseq.seqs_to_consensus, seqs, align=False)
        if raised(c) or not isinstance(c, str) or len(c) != L:
            acc.fail("seqs_to_consensus/length-or-raised", case, "string of length %d" % L, c)
            return
        for i in range(L):
            col = [s[i] for s in seqs]
            best = max(col.count(ch) for ch in set(col))
            if col.count(c[i]) != best:
                acc.fail("seqs_to_consensus/not-most-frequent", case, "position %d in %s" % (i, sorted(ch for ch in set(col) if col.count(ch) == best)), c)
                return
        acc.ok(("cons", c), nontrivial=n > 1)


def _logo(acc, case):
    import pyrepseq.plotting as P
    seqs = list(case[1])
    L = len(seqs[0])
    r = acc.call(P.seqlogos, seqs)
    if raised(r):
        acc.fail("seqlogos/raised", case, "(axes, counts)", r)
        return
    ax, mat = r
    exp = {(i, ch): sum(1 for s in seqs if s[i] == ch) for i in range(L) for ch in "CA"}
    ok = mat.shape[0] == L
    if ok:
        for i in range(L):
            for ch in mat.columns:
                if mat.loc[i, ch] != exp.get((i, ch), 0):
                    ok = False
            for ch in "CA":
                if exp[(i, ch)] and (ch not in mat.columns or mat.loc[i, ch] != exp[(i, ch)]):
                    ok = False
    if not ok:
        acc.fail("seqlogos/count-matrix", case, {str(k): v for k, v in exp.items()}, mat.to_dict())
        return
    acc.ok(("logo", tuple(sorted(exp.items()))), nontrivial=len(set(seqs)) > 1)
    # drawing options (forwarded to the logo) change the picture, not the returned count matrix
    import matplotlib.pyplot as plt
    plt.close("all")
    for kw in (dict(center_values=True), dict(shade_below=0.5, fade_below=0.5), dict(vpad=0.1, width=0.8)):
        r2 = acc.call(P.seqlogos, seqs, **kw)
        acc.cls("logo-drawing-options")
        if raised(r2) and "center_values" in kw:
            continue       # logomaker itself refuses to centre an integer matrix whose row means are fractional (third-party; not judged)
        if raised(r2) or not r2[1].equals(mat):
            acc.fail("seqlogos/count-matrix-changed-by-drawing-option", case, mat.to_dict(), r2 if raised(r2) else r2[1].to_dict(), note=str(kw))
            plt.close("all")
            return
        plt.close("all")
    acc.ok()


def _rank(acc, case):
    import numpy as np
    import matplotlib.pyplot as plt
    import pyrepseq.plotting as P
    vals = [float("nan") if v is None else float(v) for v in case[1]]
    if any(v != v for v in vals):
        acc.cls("nan-in-counts")
    if any(v == 0 for v in vals):
        acc.cls("zero-in-counts")
    clean = sorted((v for v in vals if v == v), reverse=True)
    n = len(clean)
    fig, (ax, other_) = plt.subplots(1, 2)       # one figure per case; the target axes are cleared between calls and are not the current axes
    try:
        _rank_body(acc, case, vals, clean, n, ax)
    finally:
        plt.close(fig)


def _rank_body(acc, case, vals, clean, n, ax):
    import numpy as np
    import pyrepseq.plotting as P
    for nx in (True, False):
        for ny in (False, True):
            for sc in (1.0, 2.0):
                import pandas as pd
                # a count vector may arrive as a list, an array, a Series with any index, or an (n x 1) column
                boxes = [list, np.array, lambda v: pd.Series(v, index=range(len(v), 0, -1)), lambda v: np.array(v).reshape(-1, 1), lambda v: pd.DataFrame({"count": v})]
                acc.cls("column-shaped-counts")
                if all(v == v for v in vals):
                    boxes.append(lambda v: np.array(v, dtype=np.uint64))      # counts are often stored unsigned
                    acc.cls("unsigned-counts")
                for box in boxes:
                    ax.cla()
                    r = acc.call(P.rankfrequency, box(vals), ax=ax, normalize_x=nx, normalize_y=ny, scalex=sc, scaley=sc)
                    key = "rankfrequency/%s" % ("normalised" if nx or ny else "raw")
                    if raised(r):
                        acc.fail(key + "/raised-" + r.type, case, "Line2D list", r)
                        return
                    try:
                        line = r[0]
                        x, y = list(map(float, line.get_xdata())), list(map(float, line.get_ydata()))
                    except Exception as e:
                        acc.fail(key + "/malformed", case, "list of Line2D", repr(r)[:200])
                        return
                    tot = sum(clean)
                    ex = [((v / tot if tot else float("nan")) if nx else v) * sc for v in clean]
                    ey = [(i / n if ny else i) * sc for i in range(n)]
                    if len(x) != n or len(y) != n or not all(feq(a, b) for a, b in zip(x, ex)) or not all(feq(a, b) for a, b in zip(y, ey)):
                        acc.fail(key + "/line-data", ("rank", case[1]), {"x": ex, "y": ey}, {"x": x, "y": y}, note="normalize_x=%s normalize_y=%s scale=%s" % (nx, ny, sc))
                        return
                    acc.ok(("rank", nx, ny, sc, tuple(ex)), nontrivial=len(set(clean)) > 1)


def _colors(acc, case):
    import numpy as np
    import pyrepseq.plotting as P
    lab = case[1]
    for spell in ("str", "int"):
        labels = [("L%d" % i) if spell == "str" else 10 + i for i in lab]
        counts = {l: labels.count(l) for l in set(labels)}
        for mc in (None, 1, 2, 3):
            for fn in ("labels_to_colors_hls", "labels_to_colors_tableau"):
                holder = {}

                def run(ch):
                    with rng_seam(ch) as seam:
                        r = acc.call(getattr(P, fn), list(labels), **({} if mc is None else {"min_count": mc}))
                        holder["log"] = list(seam.log)
                    return r
                nperm = 0
                for choices, r in explore_choices(run):
                    nperm += 1
                    acc.cls("every-shuffle-permutation")
                    key = "%s/" % fn
                    rc = ("colors", lab)
                    if raised(r):
                        acc.fail(key + "raised-" + r.type, rc, "colour list", r, note="min_count=%r" % mc)
                        return
                    cols = [tuple(float(v) for v in c) for c in r]
                    if len(cols) != len(labels):
                        acc.fail(key + "length", rc, len(labels), len(cols))
                        return
                    by = {}
                    for l, c in zip(labels, cols):
                        by.setdefault(l, set()).add(c)
                    if any(len(v) != 1 for v in by.values()):
                        acc.fail(key + "equal-labels-different-colours", rc, "one colour per label", {str(k): sorted(v) for k, v in by.items()}, note="min_count=%r perm=%r" % (mc, choices))
                        return
                    for l, cs in by.items():
                        c = next(iter(cs))
                        rare = mc is not None and counts[l] < mc
                        if rare:
                            acc.cls("rare-label-black")
                        if rare != (c == (0.0, 0.0, 0.0)):
                            acc.fail(key + ("rare-label-not-black" if rare else "frequent-label-black"), rc, "black iff count < min_count", {str(l): c}, note="min_count=%r perm=%r" % (mc, choices))
                            return
                    shown = [next(iter(by[l])) for l in by if not (mc is not None and counts[l] < mc)]
                    if len(set(shown)) != len(shown):
                        acc.fail(key + "distinct-labels-same-colour", rc, "distinct colours", shown, note="min_count=%r perm=%r" % (mc, choices))
                        return
                    acc.ok((fn, spell, mc, tuple(cols)), nontrivial=len(counts) > 1)
                nshown = sum(1 for l in counts if not (mc is not None and counts[l] < mc))
                if nperm != math.factorial(nshown):
                    acc.fail("%s/rng-usage" % fn, ("colors", lab), "%d! permutations of the shown labels" % nshown, nperm, note=str(holder.get("log")))
                    return


def _colors_many(acc, case):
    """more distinct labels than a fixed palette has colours: too many shuffles to enumerate, two of them are run"""
    import pyrepseq.plotting as P
    from mc.seams import Chooser
    nlab = case[1]
    acc.cls("more-labels-than-palette-colours")
    labels = []
    for i in range(nlab):
        labels += ["L%02d" % i] * (1 if i % 5 == 4 else 2)
    labels = labels[1::2] + labels[0::2]
    counts = {l: labels.count(l) for l in set(labels)}
    for mc in (None, 2):
        for fn in ("labels_to_colors_hls", "labels_to_colors_tableau"):
            for prefix in ((), (1,)):
                with rng_seam(Chooser(prefix), perm_bound=64):
                    r = acc.call(getattr(P, fn), list(labels), **({} if mc is None else {"min_count": mc}))
                key = "%s/many-labels/" % fn
                if raised(r) or len(r) != len(labels):
                    acc.fail(key + "raised-or-length", case, len(labels), r if raised(r) else len(r), note="min_count=%r" % mc)
                    return
                cols = [tuple(float(v) for v in c) for c in r]
                by = {}
                for l, c in zip(labels, cols):
                    by.setdefault(l, set()).add(c)
                if any(len(v) != 1 for v in by.values()):
                    acc.fail(key + "equal-labels-different-colours", case, "one colour per label", "differs", note="min_count=%r" % mc)
                    return
                for l, cs in by.items():
                    rare = mc is not None and counts[l] < mc
                    if rare != (next(iter(cs)) == (0.0, 0.0, 0.0)):
                        acc.fail(key + ("rare-label-not-black" if rare else "frequent-label-black"), case, "black iff count < min_count", {l: next(iter(cs))}, note="min_count=%r, %d labels shown" % (mc, sum(1 for x in counts if not (mc is not None and counts[x] < mc))))
                        return
                if fn.endswith("hls"):
                    shown = [next(iter(by[l])) for l in by if not (mc is not None and counts[l] < mc)]
                    if len(set(shown)) != len(shown):
                        acc.fail(key + "distinct-labels-same-colour", case, "distinct colours", len(set(shown)), note="min_count=%r" % mc)
                        return
                acc.ok((fn, nlab, mc, prefix), nontrivial=True)


def _scatter(acc, case):
    import numpy as np
    import matplotlib.pyplot as plt
    import pyrepseq.plotting as P
    grids = {"int": ((0, 0), (0, 1), (1, 0), (1, 1)), "half": ((0.0, 0.5), (0.0, 1.5), (0.5, 0.5), (1.5, 2.5)), "neg": ((-1, 0), (-1, -2), (3, 0), (0, -1)),
             "int-x-fractional-y": ((0, 0.5), (0, 1.5), (1, 0.5), (2, 2.5))}
    for gname, grid in grids.items():
        if not _scatter_grid(acc, case, [grid[i] for i in case[1]], gname):
            return


def _scatter_grid(acc, case, pts, gname):
    import numpy as np
    import matplotlib.pyplot as plt
    import pyrepseq.plotting as P
    if gname == "half":
        acc.cls("non-integer-coordinates")
    exp = {}
    for p in pts:
        p = (float(p[0]), float(p[1]))
        exp[p] = exp.get(p, 0) + 1
    if len(exp) < len(pts):
        acc.cls("repeated-point")
    for sort in (True, False):
        fig, (ax, other) = plt.subplots(1, 2)          # the requested axes are not pyplot's current axes
        acc.cls("axes-not-current")
        xs, ys = [p[0] for p in pts], [p[1] for p in pts]
        if gname == "int-x-fractional-y" and sort:
            xs, ys = np.array(xs, dtype=np.int64), np.array(ys, dtype=float)        # integer-typed x next to fractional y
            acc.cls("integer-x-fractional-y")
        r = acc.call(P.density_scatter, xs, ys, ax=ax, discrete=True, sort=sort)
        if raised(r):
            acc.fail("density_scatter/raised-" + r.type, case, "axes", r)
            plt.close(fig)
            return False
        coll = [c for c in ax.collections]
        if other.collections or other.lines:
            acc.fail("density_scatter/drawn-on-other-axes", case, "points on the requested axes", "points on pyplot's current axes")
            plt.close(fig)
            return False
        try:
            sc = coll[-1]
            offs = [tuple(float(v) for v in o) for o in np.asarray(sc.get_offsets())]
            arr = [int(v) for v in np.asarray(sc.get_array())]
        except Exception as e:
            acc.fail("density_scatter/malformed", case, "one scatter collection", repr(coll))
            plt.close(fig)
            return False
        got = {}
        dup = False
        for o, a in zip(offs, arr):
            if o in got:
                dup = True
            got[o] = a
        if dup or got != exp or len(offs) != len(exp) or len(coll) != 1:
            acc.fail("density_scatter/points-or-multiplicities", case, {str(k): v for k, v in exp.items()}, {"offsets": offs, "colours": arr}, note="sort=%s" % sort)
            plt.close(fig)
            return False
        if sort and arr != sorted(arr):
            acc.fail("density_scatter/not-sorted-by-density", case, sorted(arr), arr)
            plt.close(fig)
            return False
        acc.ok(("scatter", sort, tuple(sorted(got.items()))), nontrivial=len(exp) > 1)
        plt.close(fig)
    return True


def _cmap(acc, case):
    import numpy as np
    import pandas as pd
    import scipy.cluster.hierarchy as hc
    import matplotlib.pyplot as plt
    import pyrepseq.plotting as P
    tab = case[1]
    n = len(tab)
    if case[0] == "cmap-shift":
        acc.cls("chain-boundary-shift-rows")
        A = [("C", "CA", "CAA")[a] for a, b in tab]
        B = [("AAS", "AS", "S")[b] for a, b in tab]
    else:
        A = [CD[a] + "A" * b for a, b in tab]     # alpha and beta differ so that swapped triangles are observable
        B = [CD[b] for a, b in tab]
    dA = np.array([[ref_lev(A[i], A[j]) for j in range(n)] for i in range(n)], dtype=float)
    dB = np.array([[ref_lev(B[i], B[j]) for j in range(n)] for i in range(n)], dtype=float)
    iu = np.triu_indices(n, 1)
    for mode in ("paired", "alpha", "beta"):
        for index in ("default", "shifted"):
            if index == "shifted" and mode != "paired":
                continue
            # column labels are whatever the caller's table has: names, integers (0 is a valid label), the empty string
            la, lb = (("cdr3a", "cdr3b"), (0, 1), ("", "b"), (1, 0))[(len(tab) + sum(a for a, b in tab) + (index == "shifted")) % 4] if mode == "paired" else ("cdr3a", "cdr3b")
            if la in (0, ""):
                acc.cls("falsy-column-label")
            df = pd.DataFrame({la: A, lb: B, "meta": ["m%d" % (i % 2) for i in range(n)], "note": [None if i != 1 else "x" for i in range(n)]})     # a column that is not used at all may have missing cells
            kw_cols = dict(alpha_column=la, beta_column=lb)
            if index == "shifted":
                df.index = range(11, 11 + n)
                acc.cls("shifted-index")
            # cluster_kws goes to SciPy as given: half of the cases omit the criterion (SciPy's default 'inconsistent')
            ck = dict(t=1.5, criterion="distance") if (len(tab) + sum(a for a, b in tab)) % 2 else dict(t=1.1)
            if "criterion" not in ck:
                acc.cls("partial-cluster_kws")
            kw = dict(cluster_kws=dict(ck))
            kw.update(kw_cols)
            if mode == "alpha":
                kw["beta_column"] = None
                acc.cls("clustermap-single-chain")
            elif mode == "beta":
                kw["alpha_column"] = None
                acc.cls("clustermap-single-chain")
            else:
                acc.cls("clustermap-paired")
            if index == "shifted":
                kw["meta_columns"] = ["meta"]
            low, up = (dA, dB) if mode == "paired" else ((dA, dA) if mode == "alpha" else (dB, dB))
            dist = (dA + dB)[iu] if mode == "paired" else low[iu]
            if mode != "paired" and len(set(dist)) == 0:
                continue
            snap = df.copy(deep=True)
            r = acc.call(P.similarity_clustermap, df, **kw)
            key = "similarity_clustermap/%s/" % mode
            rc = (case[0], tab)
            if raised(r):
                acc.fail(key + "raised-" + r.type, rc, "(grid, linkage, cluster)", r, note="index=%s" % index)
                return
            cg, linkage, cluster = r
            eL = hc.linkage(dist, method="average", optimal_ordering=True)
            eC = hc.fcluster(eL, **ck)
            if not np.array_equal(np.asarray(linkage), eL) or list(cluster) != list(eC):
                acc.fail(key + "linkage-or-cluster", rc, {"linkage": eL.tolist(), "cluster": eC.tolist()}, {"linkage": np.asarray(linkage).tolist(), "cluster": list(map(int, cluster))})
                return
            order = list(hc.leaves_list(eL))
            got_order = list(cg.dendrogram_row.reordered_ind)
            data = np.asarray(cg.data2d, dtype=float)
            exp = np.zeros((n, n))
            for a in range(n):
                for b in range(n):
                    if a > b:
                        exp[a, b] = low[order[a], order[b]]
                    elif a < b:
                        exp[a, b] = up[order[a], order[b]]
            if got_order != order or data.shape != (n, n) or not np.array_equal(data, exp):
                acc.fail(key + "heat-map-matrix", rc, {"order": [int(x) for x in order], "matrix": exp.tolist()}, {"order": [int(x) for x in got_order], "matrix": data.tolist()}, note="index=%s" % index)
                return
            if not df.equals(snap):
                acc.fail(key + "input-modified", rc, "unchanged", "changed")
                return
            acc.ok((mode, tuple(order), tuple(eC.tolist())), nontrivial=len(set(dist)) > 1)
            plt.close("all")
