"""C16 - richness and overlap estimators follow their closed forms for every count vector."""
import itertools
import pandas as pd
import math
from fractions import Fraction
from mc.core import Space, HarnessError, raised
from mc.refmodel import feq

ID = "C16"
RULE = ("every frequency-of-frequency vector of the bound (as list and ndarray) is evaluated with chao1/var_chao1/chao2/var_chao2 and "
        "compared with the closed forms in exact rationals; every pair of collections over {a,b,c,None,NaN} in four containers is "
        "evaluated with jaccard_index/overlap/overlap_coefficient and compared with plain set algebra after the documented removal of "
        "missing values; non-trivial = f2>0 (richness) / non-empty intersection (overlap)")
ASSUMPTIONS = ["float results compared with the exact rational closed form to 1e-12 relative",
               "jaccard_index: missing values only inside Series (documented behaviour); ratio forms only where both element sets are non-empty after removal"]
REQUIRED_CLASSES = {"all": ["f2-zero", "f2-positive", "length-1-vector", "set-container", "series-with-missing", "duplicates", "large-counts", "categorical-with-unused-categories", "tuple-elements", "dict-or-index-container", "string-as-collection", "large-integers-vs-floats", "nullable-integer-series", "exotic-missing-values-and-empty-string"]}
MIN_OUTCOMES = 8
NAN = float("nan")
ELEMS = ("a", "b", "c", None, NAN)


def spaces(tier):
    q = tier == "quick"

    def gen_ff():
        L, top = (4, 4) if q else (5, 5)
        for n in range(1, L + 1):
            for v in itertools.product(range(top + 1), repeat=n):
                yield ("ff", v)

    def gen_mag():
        for f1 in (255, 256, 55108, 55109, 65535, 65536, 2 ** 21 + 1, 2 ** 31 - 1):
            for f2 in (0, 1, 3, 1000, 65536, 2 ** 21 + 1):
                yield ("ff", (f1, f2, 40, 3))
                yield ("ff", (f1, f2))

    def gen_tuples():
        for n in range(0, 3):
            for a in itertools.product(range(6), repeat=n):
                yield ("tuples", a)

    def gen_bigint():
        for n in range(1, 4):
            for a in itertools.product(range(5), repeat=n):
                yield ("bigint", a)

    def gen_strings():
        for A in ("", "a", "ab", "aab", "abc", "cab"):
            yield ("strings", A)

    def gen_exotic():
        yield ("exotic",)

    def gen_ov():
        idx = range(len(ELEMS))
        lists = [t for n in range(0, 4) for t in itertools.product(idx, repeat=n)]
        for a in lists:
            yield ("ovrow", a)

    return [
        Space("frequency-of-frequency-vectors", gen_ff, "all vectors of length 1..4 with entries 0..4 (quick) / length 1..5, entries 0..5 (thorough), as list and ndarray, m in {2,5}"),
        Space("magnitude-boundary-family", gen_mag, "f1 in {2^8-1, 2^8, 55108, 55109, 2^16-1, 2^16, 2^21+1, 2^31-1} x f2 in {0, 1, 3, 1000, 2^16, 2^21+1}, as list and as int64 ndarray (int64 powers of such counts overflow)"),
        Space("tuple-valued-elements", gen_tuples, "collections of 0..2 elements from {(a,b), (None,b), (a,), (a,b,c), None, (NaN,x)} against each other in list/set/tuple/Series containers (overlap, overlap_coefficient)"),
        Space("large-integers-and-floats", gen_bigint, "collections of 1..3 elements from {2^53+1, 2.0^53, 7, 7.0, True} against each other (equality is Python equality: 7 == 7.0, 2^53+1 != 2.0^53, True == 1) as list / Series"),
        Space("exotic-missing-values", gen_exotic, "float32/float16 NaN, NaT, datetime64 NaT, pd.NA, Decimal NaN inside lists / tuples / object Series; the empty string as an element in 5 x 2 container pairs", per_case=True),
        Space("strings-as-collections", gen_strings, "6 x 7 pairs of short strings (iterables of characters) as str / list / tuple"),
        Space("collection-pairs", gen_ov, "A, B in all lists of length 0..3 over {a,b,c,None,NaN} (156 x 156 pairs; one case = one A against every B) x {list, tuple, set, Series}; also with numeric elements"),
    ]


def chao_ref(v):
    S = sum(v)
    f1 = v[0]
    f2 = v[1] if len(v) > 1 else 0
    c1 = S + (Fraction(f1 * f1, 2 * f2) if f2 > 0 else Fraction(f1 * (f1 - 1), 2))
    c2 = S + Fraction(f1 * f1, 2 * f2) if f2 > 0 else None
    if f2 > 0:
        r = Fraction(f1, f2)
        var = f2 * (r ** 2 / 2 + r ** 3 + r ** 4 / 4)
    else:
        var = None
    return c1, c2, var


def _eq(obs, exp):
    if raised(obs):
        return False
    if exp is None:
        try:
            return obs != obs
        except Exception:
            return False
    return feq(obs, float(exp))


def check_case(case, acc):
    import numpy as np
    import pandas as pd
    import pyrepseq
    kind = case[0]
    if kind == "ff":
        v = case[1]
        c1, c2, var = chao_ref(v)
        f2 = v[1] if len(v) > 1 else 0
        acc.cls("f2-positive" if f2 > 0 else "f2-zero")
        if max(v) > 50000:
            acc.cls("large-counts")
        if len(v) == 1:
            acc.cls("length-1-vector")
        for cname, box in (("list", list), ("ndarray", np.array)):
            x = box(v)
            for fn, args, exp in (("chao1", (x,), c1), ("var_chao1", (x,), var), ("chao2", (x, 2), c2), ("chao2", (x, 5), c2), ("chao2", (x, 1), c2), ("chao2", (x, 1000), c2),
                                  ("var_chao2", (x, 2), var), ("var_chao2", (x, 5), var), ("var_chao2", (x, 1), var), ("var_chao2", (x, 1000), var)):      # the closed forms do not involve the number of replicates
                r = acc.call(getattr(pyrepseq, fn), *args)
                if not _eq(r, exp):
                    tag = "raised-" + r.type if raised(r) else "value"
                    acc.fail("%s/%s/%s" % (fn, "f2>0" if f2 > 0 else "f2=0", tag), ("ff1", fn, v, cname, args[1] if len(args) > 1 else None), exp, r)
                else:
                    if exp is not None and fn in ("chao1", "chao2") and float(r) < sum(v) - 1e-9:
                        acc.fail("%s/below-observed-richness" % fn, ("ff1", fn, v, cname, None), ">= %d" % sum(v), r)
                    else:
                        acc.ok((fn, None if exp is None else float(exp)), nontrivial=f2 > 0)
    elif kind == "ff1":
        _, fn, v, cname, m = case
        c1, c2, var = chao_ref(v)
        exp = {"chao1": c1, "var_chao1": var, "chao2": c2, "var_chao2": var}[fn]
        x = list(v) if cname == "list" else np.array(v)
        r = acc.call(getattr(pyrepseq, fn), *((x,) if m is None else (x, m)))
        if not _eq(r, exp):
            acc.fail("%s/replay" % fn, case, exp, r)
        else:
            acc.ok()
    elif kind == "exotic":
        _check_exotic(acc)
    elif kind == "ovrow":
        a = case[1]
        idx = range(len(ELEMS))
        for n in range(0, 4):
            for b in itertools.product(idx, repeat=n):
                _check_overlap(acc, a, b)
    elif kind == "bigint":
        pool = (2 ** 53 + 1, 2.0 ** 53, 7, 7.0, 1)
        A = [pool[i] for i in case[1]]
        acc.cls("large-integers-vs-floats")
        for nB in range(1, 3):
            for bi in itertools.product(range(5), repeat=nB):
                B = [pool[i] for i in bi]
                sa, sb = set(A), set(B)
                for x, y, tag in ((A, B, "list-list"), (pd.Series(A, dtype=object), B, "series-list"), (tuple(A), set(B), "tuple-set")):
                    r = acc.call(pyrepseq.overlap, x, y)
                    rc = acc.call(pyrepseq.overlap_coefficient, x, y)
                    rj = acc.call(pyrepseq.jaccard_index, x, y)
                    if raised(r) or r != len(sa & sb) or raised(rc) or not feq(rc, len(sa & sb) / min(len(sa), len(sb))) or raised(rj) or not feq(rj, len(sa & sb) / len(sa | sb)):
                        acc.fail("overlap/large-integers-vs-floats", ("bigint", case[1]), len(sa & sb), (r, rc, rj), note="B=%r %s" % (B, tag))
                        return
                    acc.ok(("big", len(sa & sb)), nontrivial=bool(sa & sb))
        # a categorical integer Series against booleans and floats (True == 1, 7 == 7.0 are the same element)
        ints = [v for v in A if isinstance(v, int) and not isinstance(v, bool) and abs(v) < 100]
        if ints:
            for B in ([True, False], [True, 7.0], [False], [1.0, 7]):
                sa, sb = set(ints), set(B)
                for x, y in ((pd.Series(ints, dtype="category"), B), (B, pd.Series(ints, dtype="category"))):
                    r = acc.call(pyrepseq.overlap, x, y)
                    rc = acc.call(pyrepseq.overlap_coefficient, x, y)
                    if raised(r) or r != len(sa & sb) or raised(rc) or not feq(rc, len(sa & sb) / min(len(sa), len(sb))):
                        acc.fail("overlap/categorical-integers-vs-booleans", ("bigint", case[1]), len(sa & sb), (r, rc), note="ints=%r B=%r" % (ints, B))
                        return
                    acc.ok()
    elif kind == "strings":
        # a str is an iterable of its characters
        A = case[1]
        acc.cls("string-as-collection")
        for B in ("", "a", "ab", "ba", "abc", "cc", "xyz"):
            sa, sb = set(A), set(B)
            for x, y in ((A, B), (A, list(B)), (tuple(A), B)):
                r = acc.call(pyrepseq.overlap, x, y)
                if raised(r) or r != len(sa & sb):
                    acc.fail("overlap/string-as-collection", ("strings", A), len(sa & sb), r, note="B=%r" % (B,))
                    return
                if sa and sb:
                    r = acc.call(pyrepseq.overlap_coefficient, x, y)
                    rj = acc.call(pyrepseq.jaccard_index, x, y)
                    if raised(r) or not feq(r, len(sa & sb) / min(len(sa), len(sb))) or raised(rj) or not feq(rj, len(sa & sb) / len(sa | sb)):
                        acc.fail("overlap_coefficient/string-as-collection", ("strings", A), len(sa & sb) / min(len(sa), len(sb)), (r, rj), note="B=%r" % (B,))
                        return
                acc.ok(("str", len(sa & sb)), nontrivial=bool(sa & sb))
    elif kind == "tuples":
        # hashable tuple elements (e.g. paired-chain clonotypes): a tuple with a None/NaN component or of another length is an
        # ordinary element, only stand-alone None/NaN are missing
        pool = (("a", "b"), (None, "b"), ("a",), ("a", "b", "c"), None, (NAN, "x"))
        A = [pool[i] for i in case[1]]
        acc.cls("tuple-elements")
        for nB in range(0, 3):
            for bi in itertools.product(range(len(pool)), repeat=nB):
                B = [pool[i] for i in bi]
                sa = {x for x in A if x is not None}
                sb = {x for x in B if x is not None}
                for ca, cb in (("list", "list"), ("list", "series"), ("set", "list"), ("tuple", "tuple")):
                    boxa = {"list": list, "set": set, "tuple": tuple, "series": lambda v: pd.Series(v, dtype=object)}[ca](A)
                    boxb = {"list": list, "set": set, "tuple": tuple, "series": lambda v: pd.Series(v, dtype=object)}[cb](B)
                    r = acc.call(pyrepseq.overlap, boxa, boxb)
                    if raised(r) or r != len(sa & sb):
                        acc.fail("overlap/tuple-elements/%s" % ("raised-" + r.type if raised(r) else "value"), ("tuples", case[1]), len(sa & sb), r, note="B=%r containers=%s,%s" % (B, ca, cb))
                        return
                    if sa and sb:
                        r = acc.call(pyrepseq.overlap_coefficient, boxa, boxb)
                        e = len(sa & sb) / min(len(sa), len(sb))
                        if raised(r) or not feq(r, e):
                            acc.fail("overlap_coefficient/tuple-elements/%s" % ("raised-" + r.type if raised(r) else "value"), ("tuples", case[1]), e, r, note="B=%r containers=%s,%s" % (B, ca, cb))
                            return
                    acc.ok(("tup", len(sa & sb)), nontrivial=bool(sa & sb))
    elif kind == "ov1":
        _check_overlap(acc, case[1], case[2], only=(case[3], case[4], case[5]))
    else:
        raise HarnessError("unknown case %r" % (case,))


def _box(idxs, cont, numeric):
    import pandas as pd
    vals = [ELEMS[i] for i in idxs]
    if numeric:
        vals = [{"a": 1, "b": 2, "c": 3}.get(v, v) for v in vals]
    if cont == "list":
        return vals
    if cont == "tuple":
        return tuple(vals)
    if cont == "set":
        return set(vals)
    if cont == "series":
        return pd.Series(vals, dtype=object) if not vals else pd.Series(vals)
    if cont == "dict":
        # any iterable is converted to a set: iterating a dict (or Counter) yields its keys
        return {v: n for n, v in enumerate(vals)}
    if cont == "index":
        return pd.Index(vals, dtype=object)
    if cont == "nullable-int":
        # pandas' nullable integer dtype: missing cells are pd.NA inside an integer column
        return pd.Series(pd.array([None if (v is None or v != v) else v for v in vals], dtype="Int64"))
    if cont == "categorical":
        # a categorical column after filtering: categories that no longer occur are still listed
        return pd.Series(pd.Categorical(vals, categories=sorted({v for v in vals if isinstance(v, (str, int))} | ({"zz", "a"} if not numeric else {77, 1}))))
    raise HarnessError(cont)


def _check_exotic(acc):
    """missing values other than None / float NaN inside plain containers, and the empty string (an ordinary element)"""
    import datetime
    import decimal
    import numpy as np
    import pandas as pd
    import pyrepseq
    acc.cls("exotic-missing-values-and-empty-string")
    miss = {"float32-nan": np.float32("nan"), "float16-nan": np.float16("nan"), "NaT": pd.NaT, "datetime64-NaT": np.datetime64("NaT"), "pd.NA": pd.NA, "Decimal-NaN": decimal.Decimal("NaN")}
    for mname, mv in miss.items():
        for box in (list, tuple, lambda v: pd.Series(v, dtype=object)):
            A, B = box(["a", "b", mv]), box(["a", "b", "c", "d"])
            for fn, e in (("overlap", 2), ("overlap_coefficient", 1.0)):
                for x, y in ((A, B), (B, A)):
                    r = acc.call(getattr(pyrepseq, fn), x, y)
                    if raised(r) or not feq(r, e):
                        acc.fail("%s/exotic-missing-value/%s" % (fn, "raised" if raised(r) else "value"), ("exotic", mname), e, r, note="container %s" % type(A).__name__)
                        return
    for box in (list, set, tuple, lambda v: pd.Series(v, dtype=object), lambda v: pd.Series(v)):
        for boxb in (list, lambda v: pd.Series(v)):
            A, B = box(["", "a", "b"]), boxb(["", "a", "c", "d"])
            for fn, e in (("overlap", 2), ("overlap_coefficient", 2 / 3), ("jaccard_index", 2 / 5)):
                for x, y in ((A, B), (B, A)):
                    r = acc.call(getattr(pyrepseq, fn), x, y)
                    if raised(r) or not feq(r, e):
                        acc.fail("%s/empty-string-element/%s" % (fn, "raised" if raised(r) else "value"), ("exotic", "empty-string"), e, r, note="containers %s, %s" % (type(A).__name__, type(B).__name__))
                        return
    acc.ok(("exotic",), nontrivial=True)


def _check_overlap(acc, a, b, only=None):
    import pyrepseq
    miss_a = any(ELEMS[i] is None or ELEMS[i] != ELEMS[i] for i in a)
    miss_b = any(ELEMS[i] is None or ELEMS[i] != ELEMS[i] for i in b)
    sa = {ELEMS[i] for i in a if isinstance(ELEMS[i], str)}
    sb = {ELEMS[i] for i in b if isinstance(ELEMS[i], str)}
    if len(set(a)) < len(a) or len(set(b)) < len(b):
        acc.cls("duplicates")
    inter, union = len(sa & sb), len(sa | sb)
    conts = ("list", "tuple", "set", "series")
    for ca in conts + ("categorical", "dict", "index", "nullable-int"):
        for cb in (conts if ca in ("list", "series") else ("list", ca)):
            for numeric in ((True,) if ca == "nullable-int" else (False, True) if (ca, cb) in (("list", "list"), ("series", "series"), ("set", "set")) else (False,)):
                if only is not None and (ca, cb, numeric) != only[:3]:
                    continue
                if "set" in (ca, cb):
                    acc.cls("set-container")
                if (ca == "series" and miss_a) or (cb == "series" and miss_b):
                    acc.cls("series-with-missing")
                if "categorical" in (ca, cb):
                    acc.cls("categorical-with-unused-categories")
                if "nullable-int" in (ca, cb):
                    acc.cls("nullable-integer-series")
                    if any(not (ELEMS[i] is None or ELEMS[i] != ELEMS[i] or ELEMS[i] in ("a", "b", "c")) for i in a + b):
                        continue
                if "dict" in (ca, cb) or "index" in (ca, cb):
                    acc.cls("dict-or-index-container")
                    if any(ELEMS[i] is None or ELEMS[i] != ELEMS[i] for i in a + b):
                        continue        # NaN keys / missing labels in a dict or Index: outside the quantifier
                for fn in ("overlap", "overlap_coefficient", "jaccard_index"):
                    if fn == "jaccard_index":
                        if (miss_a and ca not in ("series", "categorical", "nullable-int")) or (miss_b and cb not in ("series", "categorical", "nullable-int")) or union == 0:
                            continue
                        exp = Fraction(inter, union)
                    elif fn == "overlap":
                        exp = Fraction(inter)
                    else:
                        if not sa or not sb:
                            continue
                        exp = Fraction(inter, min(len(sa), len(sb)))
                    A, B = _box(a, ca, numeric), _box(b, cb, numeric)
                    r = acc.call(getattr(pyrepseq, fn), A, B)
                    if raised(r) or not feq(r, float(exp)):
                        tag = "raised-" + r.type if raised(r) else "value"
                        ckey = "set-input" if "set" in (ca, cb) else "%s-%s" % (ca, cb)
                        acc.fail("%s/%s/%s" % (fn, ckey, tag), ("ov1", a, b, ca, cb, numeric), exp, r, note=fn)
                    else:
                        acc.ok((fn, float(exp)), nontrivial=inter > 0)
