"""C07 - Hamming mode: exactly the equal-length pairs within max_edits mismatches."""
import itertools
from mc.core import Space, HarnessError
from mc import enum as E
from mc.refmodel import neighbors_within
from mc.nnutil import diagnose, digest, run_self

ID = "C07"
RULE = ("every list of the stated spaces (every interleaving of lengths) is executed on nearest_neighbor, symdel, "
        "symdel(seqs2=), hash_based and kdtree with custom_distance='hamming' and compared with "
        "{(i,j,h): i!=j, equal length, h = mismatches <= k}; non-trivial = expected set non-empty")
ASSUMPTIONS = ["alphabet restricted to amino-acid letters (kdtree/hash_based only accept those)",
               "hash_based Hamming ball over 20 letters: k=3 only on Lists(V,2) (strings of 1..3 residues)"]
REQUIRED_CLASSES = {"all": ["mixed-lengths", "lengths-not-sorted", "indel-reachable-not-hamming", "duplicate-at-distance-0", "long-strings>=127", "large-single-length-bucket", "two-empty-strings", "one-composition-many-sequences"]}
MIN_OUTCOMES = 10

V = E.universe("AC", 3, minlen=1)   # 14 strings of length 1..3


def spaces(tier):
    q = tier == "quick"

    def gen_lists():
        for seqs in E.lists(V, 4 if q else 5):
            yield ("list", seqs)

    def gen_empty():
        W = ["", "A", "C", "AC"]
        for seqs in E.lists(W, 4 if q else 5, minlen=2):
            if seqs.count("") >= 1:
                yield ("list", seqs)

    def gen_lists_hash():
        for seqs in E.lists(V, 3):
            yield ("hlist", seqs, 1)
            yield ("hlist", seqs, 2)
        for seqs in E.lists(V, 2):          # the three-substitution ball (pairs at distance 1 and 2 must keep their distance inside it)
            yield ("hlist", seqs, 3)
            yield ("hlist", seqs, 4)        # a radius beyond every string's length: the ball is all strings of that length

    def gen_uni():
        for alpha, L in ([("ACD", 5)] if q else [("ACD", 6), ("ACDE", 5)]):
            for order in ("sorted", "reversed", "interleaved"):
                for k in (1, 2, 3):
                    for eng in ("symdel", "kdtree", "symdel2") + (("hash_based",) if k == 1 or (k == 2 and not q) else ()):
                        yield ("uni", alpha, L, order, k, eng)

    def gen_long():
        for n in (127, 128, 255, 256, 257, 300):
            yield ("long", n)
        for N in (1001,) if q else (1001, 10001, 100003):
            yield ("samelen", N)
        for word in ("AACD", "ACDE", "AAACC", "CASSF"):
            for copies in (0, 11):
                yield ("samecomp", word, copies)

    return [
        Space("long-string-boundary-family", gen_long, "equal-length neighbours and near-misses of length 127..300 mixed with short strings: x^n, x^(n-1)y, yx^(n-1), x^(n-2)yy, x^(n+1), x^(n-1); all engines, k in 1..2 (hash_based k=1)", per_case=True),
        Space("all-length-interleavings", gen_lists, "Lists(V,4) quick / Lists(V,5) thorough, V = 14 strings of length 1..3 over {A,C}; k in 1..3; nearest_neighbor, symdel, symdel(seqs2=self), kdtree", shards=64),
        Space("lists-with-empty-strings", gen_empty, "all lists of 2..4(5) strings over {'', A, C, AC} containing the empty string at least once (two empty strings are equal-length neighbours at distance 0)", shards=16),
        Space("all-length-interleavings-hash_based", gen_lists_hash, "Lists(V,3) x k in 1..2 and Lists(V,2) x k in 3..4 on hash_based"),
        Space("mixed-length-universe", gen_uni, "U(ACD,5) quick / U(ACD,6),U(ACDE,5) thorough as one list in sorted, reversed and length-interleaved order", per_case=True),
    ]


def order_universe(U, order):
    if order == "sorted":
        return U
    if order == "reversed":
        return U[::-1]
    # interleave by length: round-robin over length classes
    by = {}
    for s in U:
        by.setdefault(len(s), []).append(s)
    out = []
    for t in itertools.zip_longest(*[by[l] for l in sorted(by, reverse=True)]):
        out += [s for s in t if s is not None]
    return out


def run(acc, eng, seqs, k):
    import pyrepseq
    if eng == "symdel2":
        return acc.call(pyrepseq.symdel, list(seqs), k, custom_distance="hamming", seqs2=list(seqs))
    if eng == "symdel2-same-object":
        x = list(seqs)
        return acc.call(pyrepseq.symdel, x, k, custom_distance="hamming", seqs2=x)
    return run_self(acc, eng, list(seqs), k, custom_distance="hamming")


def compare(acc, case, eng, seqs, k, res, expected, small):
    self_mode = not eng.startswith("symdel2")
    exp = expected if self_mode else expected | {(i, i, 0) for i in range(len(seqs))} | set()
    if not self_mode:
        exp = neighbors_within(list(seqs), k, queries=list(seqs), dist="hamming")
    bad = diagnose(res, exp, self_mode=self_mode)
    if bad is None:
        acc.ok((eng, k, digest(res)) if small else (eng, case, len(res)), nontrivial=bool(expected))
        return
    fclass, detail = bad
    rcase, rexp, robs = ("one", tuple(seqs), k, eng), sorted(exp)[:20], digest(res)
    if not small:
        # shrink: the offending pair plus one shorter/longer companion that keeps the length mix
        cand = []
        if isinstance(detail, tuple) and len(detail) >= 2 and isinstance(detail[0], int):
            i, j = detail[0], detail[1]
            a, b = seqs[i], seqs[j]
            cand = [(a, b), ("A" * (len(a) + 1), a, b), (a, "A" * (len(a) + 1), b), (a, b, "A" * (len(a) + 1))]
        for red in cand:
            e2 = neighbors_within(list(red), k, dist="hamming") if self_mode else neighbors_within(list(red), k, queries=list(red), dist="hamming")
            r2 = run(acc, eng, red, k)
            if diagnose(r2, e2, self_mode=self_mode) is not None:
                rcase, rexp, robs = ("one", tuple(red), k, eng), sorted(e2), digest(r2)
                break
        else:
            rcase = case
    acc.fail("%s/hamming/%s" % (eng, fclass), rcase, rexp, robs if isinstance(robs, str) else robs[:30], note="%s %s" % (fclass, detail))


def check_case(case, acc):
    kind = case[0]
    if kind == "list":
        seqs = case[1]
        lens = [len(s) for s in seqs]
        if len(set(lens)) > 1:
            acc.cls("mixed-lengths")
        if lens != sorted(lens):
            acc.cls("lengths-not-sorted")
        if len(set(seqs)) < len(seqs):
            acc.cls("duplicate-at-distance-0")
        if seqs.count("") >= 2:
            acc.cls("two-empty-strings")
        from mc.refmodel import ref_lev
        if any(len(a) != len(b) and ref_lev(a, b) == 1 for a, b in itertools.combinations(set(seqs), 2)):
            acc.cls("indel-reachable-not-hamming")
        for k in (1, 2, 3):
            expected = neighbors_within(list(seqs), k, dist="hamming")
            for eng in ("nearest_neighbor", "symdel", "symdel2", "symdel2-same-object", "kdtree"):
                compare(acc, case, eng, seqs, k, run(acc, eng, seqs, k), expected, True)
    elif kind == "hlist":
        _, seqs, k = case
        expected = neighbors_within(list(seqs), k, dist="hamming")
        compare(acc, case, "hash_based", seqs, k, run(acc, "hash_based", seqs, k), expected, True)
    elif kind == "one":
        _, seqs, k, eng = case
        expected = neighbors_within(list(seqs), k, dist="hamming")
        compare(acc, case, eng, seqs, k, run(acc, eng, seqs, k), expected, True)
    elif kind == "long":
        n = case[1]
        acc.cls("long-strings>=127")
        seqs = ["A" * n, "CAC", "A" * (n - 1) + "C", "C" + "A" * (n - 1), "A" * (n - 2) + "CC", "A" * (n + 1), "A" * (n - 1), "CAA", "A" * n]
        for k in (1, 2):
            expected = neighbors_within(seqs, k, dist="hamming")
            for eng in ("nearest_neighbor", "symdel", "symdel2", "kdtree") + (("hash_based",) if k == 1 else ()):
                compare(acc, case, eng, seqs, k, run(acc, eng, seqs, k), expected, True)
    elif kind == "samecomp":
        # one length bucket holding more than ten sequences of one composition that are not all identical
        _, word, copies = case
        acc.cls("one-composition-many-sequences")
        seqs = E.composition_family(word, copies, extra=("CA", word + "A", word[:-1]))
        for k in (1, 2, 3):
            expected = neighbors_within(seqs, k, dist="hamming")
            for eng in ("nearest_neighbor", "symdel2", "kdtree") + (("hash_based",) if k <= (2 if len(word) <= 4 else 1) else ()):
                compare(acc, case, eng, seqs, k, run(acc, eng, seqs, k), expected, False)
    elif kind == "samelen":
        # many sequences of one and the same length (one Hamming bucket): clonal family at the ends and next to round positions
        N = case[1]
        acc.cls("large-single-length-bucket")
        seqs, pos = E.size_family(N, marks=(256, 1000, 1024, 10000, 65536, 100000))
        seqs = [s if len(s) == 13 else (s + "WWW") for s in seqs]          # fillers padded to the family's length
        expected = neighbors_within(seqs, 1, dist="hamming")
        for eng in ("kdtree", "symdel"):
            compare(acc, case, eng, seqs, 1, run(acc, eng, seqs, 1), expected, False)
    elif kind == "uni":
        _, alpha, L, order, k, eng = case
        seqs = order_universe(E.universe(alpha, L), order)
        expected = neighbors_within(seqs, k, dist="hamming")
        acc.extra["pairs_decided"] += len(seqs) * (len(seqs) - 1)
        acc.cls("mixed-lengths")
        compare(acc, case, eng, seqs, k, run(acc, eng, seqs, k), expected, False)
    else:
        raise HarnessError("unknown case %r" % (case,))
