"""C14 - distance-filtered search keeps exactly the pairs inside both radii."""
import itertools
import math
import os
from mc.core import Space, HarnessError, raised, REPO
from mc import enum as E
from mc.refmodel import ref_lev, neighbors_within
from mc.nnutil import diagnose, digest

ID = "C14"
RULE = ("every (sequences, custom distance, max_edits, max_custom_distance, engine) case is executed and compared with "
        "{(i,j,c): lev<=max_edits and c=custom<=max_custom_distance}; TCR tables x chain x edit_on_trimmed x max_edits x max_tcrdist are "
        "executed on nearest_neighbor_tcrdist with a vendored pwseqdist stand-in and compared with the same composition written out "
        "naively; both CSV tables are checked entry by entry; non-trivial = expected set non-empty")
ASSUMPTIONS = ["pwseqdist is absent: /verif/standins/pwseqdist supplies apply_pairwise_sparse + nb_vector_tcrdist (own implementation); what is decided is pyrepseq's composition (candidate search, positional lookup, V table, chain sum, radius), not pwseqdist",
               "custom distances are symmetric with d(x,x)=0 as the property requires"]
REQUIRED_CLASSES = {"all": ["lev-ok-custom-too-far", "custom-ok-lev-too-far", "real-valued-distance", "infinite-max_custom_distance", "tcrdist-empty-result", "tcrdist-chain-both", "vtable-entry", "history-changes-distance-function", "library-function-object-as-distance", "tcrdist-kwargs-history", "kdtree-radius-boundary", "tcrdist-large-table", "kdtree-max_returns-with-callable"]}
MIN_OUTCOMES = 10

INF = float("inf")


def _lendiff(a, b):
    return abs(len(a) - len(b))


def _rf():
    from rapidfuzz.distance.Levenshtein import distance
    return distance


def _pylev():
    from Levenshtein import distance
    return distance


class _Lazy(dict):
    """custom distances that are library function objects themselves (not wrappers): resolved on first use"""

    def __missing__(self, k):
        if k == "rapidfuzz-function":
            self[k] = _rf()
        elif k == "python-Levenshtein-function":
            self[k] = _pylev()
        else:
            raise KeyError(k)
        return self[k]


CUSTOM = _Lazy({
    "lev": lambda a, b: ref_lev(a, b),
    "2lev": lambda a, b: 2 * ref_lev(a, b),
    "halflev": lambda a, b: ref_lev(a, b) / 2,
    "10lev": lambda a, b: 10 * ref_lev(a, b),
    "lendiff": _lendiff,
    "lev+lendiff": lambda a, b: ref_lev(a, b) + _lendiff(a, b),
    "zero": lambda a, b: 0,
    "tenthlev": lambda a, b: 0.1 * ref_lev(a, b),
})
LIB_FUNCS = ("rapidfuzz-function", "python-Levenshtein-function")
MAXCD = (INF, 0, 0.5, 1, 2, 3, 10, 20)
import math as _math
# real-valued distances: radii exactly on an attained value and one ulp below it (no tolerance: 0.1 > nextafter(0.1, 0); 0.1*3 > 0.3)
TENTH_RADII = (_math.nextafter(0.1, 0.0), 0.1, _math.nextafter(0.2, 0.0), 0.2, 0.3, INF)


def radii(cname):
    return TENTH_RADII if cname == "tenthlev" else MAXCD


SELF_ENG = ("symdel", "nearest_neighbor", "kdtree", "hash_based")
TWO_ENG = ("symdel2", "SymdelDB", "LookupDB")


def expected_custom(seqs, k, cname, maxcd, queries=None):
    f = CUSTOM[cname] if cname not in LIB_FUNCS else ref_lev
    out = set()
    for (qi, ri, d) in neighbors_within(list(seqs), k, queries=None if queries is None else list(queries)):
        q = (seqs if queries is None else queries)[qi]
        c = f(q, seqs[ri])
        if c <= maxcd:
            out.add((qi, ri, c))
    return out


def run(acc, eng, seqs, k, cname, maxcd, queries=None):
    import pyrepseq
    from pyrepseq.nn import SymdelDB, LookupDB
    f = CUSTOM[cname]
    kw = dict(custom_distance=f)
    if maxcd is not None:
        kw["max_custom_distance"] = maxcd
    if eng in SELF_ENG:
        return acc.call(getattr(pyrepseq, eng), list(seqs), k, **kw)
    if eng == "symdel2":
        if tuple(queries) == tuple(seqs):
            x = list(seqs)      # the very same object on both sides
            return acc.call(pyrepseq.symdel, x, k, seqs2=x, **kw)
        return acc.call(pyrepseq.symdel, list(seqs), k, seqs2=list(queries), **kw)
    if eng == "SymdelDB":
        return acc.call(lambda: SymdelDB(list(seqs), k).lookup(list(queries), **kw))
    if eng == "LookupDB":
        return acc.call(lambda: LookupDB(list(seqs)).lookup(list(queries), max_edits=k, **kw))
    raise HarnessError(eng)


# ------------------------------------------------------------------ TCRdist part
CDR3S = ("CASSLGQAYEQYF", "CASSLGQAYEQFF", "CASSLGAYEQYF", "CASRPTGGDTQYF", "CAVRDSNYQLIW", "CAVRDSNYKLIW", "CAVDSNYQLIW",
         "CAKSLGQAYEQYF", "CATSLGQAYEQLF",     # these two differ from the first only inside the default trim (positions 2 and -2)
         "CAWSF", "CASSF", "CASSSF", "CAWSSF")   # 9..12: CDR3s no longer than the default trim (3 + 2): trimmed to '' / one or two residues
BV = ("TRBV6-1*01", "TRBV9*01", "TRBV20-1*01")
AV = ("TRAV1-1*01", "TRAV12-2*01", "TRAV26-1*01")


def _data(name):
    return os.path.join(REPO, "pyrepseq", "data", name)


def spaces(tier):
    q = tier == "quick"

    def gen_uni():
        for alpha, L in ([("AC", 5), ("ACD", 4)] if q else [("AC", 7), ("ACD", 5)]):
            for cname in CUSTOM:
                for k in (1, 2):
                    for eng in ("symdel", "kdtree"):
                        yield ("uni", alpha, L, cname, k, eng)
        for alpha, L in ([("AC", 4)] if q else [("AC", 5), ("ACD", 4)]):
            for cname in CUSTOM:
                yield ("uni", alpha, L, cname, 1, "hash_based")
        for alpha, L in ([("AC", 4), ("ACD", 3)] if q else [("AC", 6), ("ACD", 4)]):
            for cname in CUSTOM:
                for k in (1, 2):
                    for eng in ("symdel2", "SymdelDB"):
                        yield ("uni2", alpha, L, cname, k, eng)
                yield ("uni2", alpha, min(L, 4), cname, 1, "LookupDB")

    def gen_boundary():
        for k in range(1, 13):
            yield ("kdboundary", k)
        yield ("tcr-large", 40)

    def gen_lists():
        for seqs in E.lists(E.universe("AC", 2), 3):
            for cname in tuple(CUSTOM) + LIB_FUNCS:
                yield ("list", seqs, cname)

    def gen_tcr():
        rows_b = list(itertools.product(range(len(BV)), range(4)))
        nmax = 3 if q else 4
        # rows: (beta V, beta CDR3, alpha V, alpha CDR3) with the alpha part tied to the row index pattern
        R = [(bv, c3b, av, c3a) for bv in range(2) for c3b in range(3) for av in range(2) for c3a in (4, 5)] if q else \
            [(bv, c3b, av, c3a) for bv in range(3) for c3b in range(4) for av in range(2) for c3a in (4, 5, 6)]
        if q:
            R = R[::2]
        for n in range(2, nmax + 1):
            for rows in itertools.combinations_with_replacement(range(len(R)), n):
                if n >= 3 and (sum(rows) % ((4 if q else 7) if n == 3 else 211)) != 0:
                    continue   # thinning of the larger tables by a fixed residue class (stated in bounds)
                yield ("tcr", tuple(R[r] for r in rows))

    def gen_tcr_short():
        R = [(0, c3b, 0, 4) for c3b in (9, 10, 11, 12)] + [(1, 9, 0, 4)]
        for n in (2, 3):
            for rows in itertools.combinations_with_replacement(range(len(R)), n):
                yield ("tcr", tuple(R[r] for r in rows))

    def gen_hist():
        depth = 2 if q else 3
        for kind in ("SymdelDB", "LookupDB"):
            for ri in range(len(HIST_REFS)):
                for qi in range(len(HIST_QUERIES)):
                    for k in (1, 2) if kind == "SymdelDB" else (1,):
                        for d in range(1, depth + 1):
                            for h in itertools.product(HIST_OPS, repeat=d):
                                yield ("hist", kind, ri, qi, k, h)

    def gen_tcr_hist():
        tables = (((0, 0, 0, 4), (0, 1, 0, 4), (1, 2, 1, 5)), ((2, 3, 0, 6), (2, 3, 0, 4), (0, 0, 1, 5), (0, 1, 1, 5)),
                  ((0, 0, 0, 4), (0, 7, 0, 4), (0, 8, 0, 4), (0, 1, 0, 4)))
        depth = 2 if q else 3
        for ti in range(len(tables)):
            for chain in ("beta", "both"):
                for d in range(1, depth + 1):
                    for h in itertools.product(range(len(TCR_KW)), repeat=d):
                        yield ("tcrhist", tables[ti], chain, h)

    def gen_vt():
        yield ("vtable", "vdists_alpha.csv")
        yield ("vtable", "vdists_beta.csv")

    return [
        Space("custom-distance-universes", gen_uni, "U(AC,5|7), U(ACD,4|5) as one list x 7 custom distances x max_edits in 1..2 x 8 max_custom_distance values x engines (hash_based/LookupDB k=1 on smaller universes)", per_case=True),
        Space("kdtree-radius-boundary-and-large-table", gen_boundary, "x^k.C vs y^k.C families (composition distance exactly sqrt(2)*k) for k = 1..12 on kdtree with callable distances; a 40-row TCR table (> 1000 candidate pairs) with max_tcrdist placed on occurring distance values", per_case=True),
        Space("custom-distance-all-lists", gen_lists, "Lists(U(AC,2),3) x 7 custom distances x max_edits in 1..2 x 8 max_custom_distance x 4 self engines + 3 two-collection engines (query = reversed list)"),
        Space("tcrdist-short-cdr3", gen_tcr_short, "all 2..3-row tables over beta CDR3s of 5..6 residues (trimmed to '' or 1..2 residues by the default trim) x chain x trimming x radii"),
        Space("tcrdist-tables", gen_tcr, "all multisets of 2 rows (and a fixed residue class of the 3[,4]-row multisets) over a row alphabet of beta/alpha V alleles x CDR3s; chain x edit_on_trimmed x max_edits in 1..2 x max_tcrdist in {0,12,24,1000}; shifted index", shards=64),
        Space("index-object-histories", gen_hist, "every sequence of 1..2 (quick) / 1..3 (thorough) look-ups with distance in {default, hamming, 4 callables} x max_custom_distance in {inf, 1} on one live SymdelDB / LookupDB (2 references x 2 query lists), each answer compared with the reference", shards=32),
        Space("tcrdist-kwargs-histories", gen_tcr_hist, "every sequence of 1..2 (quick) / 1..3 (thorough) nearest_neighbor_tcrdist calls with tcrdist_kwargs in {none, dist_weight=1, ntrim=2+ctrim=1, gap_penalty=4} on 2 tables x chain in {beta, both}; caller's dict unchanged"),
        Space("bundled-v-tables", gen_vt, "every entry of vdists_alpha.csv and vdists_beta.csv", per_case=True),
    ]


def _classify(acc, seqs, k, cname, maxcd):
    f = CUSTOM[cname] if cname not in LIB_FUNCS else ref_lev
    if cname in LIB_FUNCS:
        acc.cls("library-function-object-as-distance")
    n = len(seqs)
    if maxcd == INF:
        acc.cls("infinite-max_custom_distance")
    if cname == "halflev":
        acc.cls("real-valued-distance")
    if n <= 4:
        for i in range(n):
            for j in range(n):
                if i != j:
                    l, c = ref_lev(seqs[i], seqs[j]), f(seqs[i], seqs[j])
                    if l <= k and c > maxcd:
                        acc.cls("lev-ok-custom-too-far")
                    if l > k and c <= maxcd:
                        acc.cls("custom-ok-lev-too-far")


def _cmp(acc, case, eng, seqs, k, cname, maxcd, queries, small):
    self_mode = queries is None
    exp = expected_custom(seqs, k, cname, maxcd, queries)
    res = run(acc, eng, seqs, k, cname, maxcd, queries)
    bad = diagnose(res, exp, self_mode=self_mode)
    if bad is None:
        acc.ok((eng, cname, k, maxcd, digest(res)) if small else (eng, case, maxcd, len(res)), nontrivial=bool(exp))
        return
    fclass, detail = bad
    rcase = ("one", eng, tuple(seqs), k, cname, maxcd, None if queries is None else tuple(queries))
    rexp, robs = sorted(exp)[:20], digest(res)
    if not small and isinstance(detail, tuple) and len(detail) >= 2 and isinstance(detail[0], int):
        qi, ri = detail[0], detail[1]
        if self_mode:
            red_s, red_q = (seqs[qi], seqs[ri]), None
        else:
            red_s, red_q = (seqs[ri],), (queries[qi],)
        e2 = expected_custom(red_s, k, cname, maxcd, red_q)
        r2 = run(acc, eng, red_s, k, cname, maxcd, red_q)
        if diagnose(r2, e2, self_mode=self_mode) is not None:
            rcase, rexp, robs = ("one", eng, red_s, k, cname, maxcd, red_q), sorted(e2), digest(r2)
    radius = "maxcd=inf" if maxcd == INF else "maxcd=finite"
    acc.fail("%s/custom-callable/%s/%s" % (eng, radius, fclass), rcase, rexp, robs if isinstance(robs, str) else robs[:30], note="%s %s custom=%s" % (fclass, detail, cname))


def check_case(case, acc):
    kind = case[0]
    if kind == "uni":
        _, alpha, L, cname, k, eng = case
        seqs = E.universe(alpha, L)
        for maxcd in radii(cname):
            _classify(acc, seqs, k, cname, maxcd)
            _cmp(acc, case, eng, seqs, k, cname, maxcd, None, False)
    elif kind == "uni2":
        _, alpha, L, cname, k, eng = case
        seqs = E.universe(alpha, L)
        for maxcd in radii(cname):
            _classify(acc, seqs, k, cname, maxcd)
            _cmp(acc, case, eng, seqs[::-1], k, cname, maxcd, seqs, False)
    elif kind == "list":
        _, seqs, cname = case
        for k in (1, 2):
            for maxcd in radii(cname):
                _classify(acc, seqs, k, cname, maxcd)
                for eng in SELF_ENG:
                    if eng == "hash_based" and k > 1:
                        continue
                    _cmp(acc, case, eng, seqs, k, cname, maxcd, None, True)
                for eng in TWO_ENG:
                    if eng == "LookupDB" and k > 1:
                        continue
                    _cmp(acc, case, eng, seqs, k, cname, maxcd, seqs[::-1], True)
                _cmp(acc, case, "symdel2", seqs, k, cname, maxcd, seqs, True)
            # kdtree with max_returns under a callable distance: per query min(m, #inside both radii) pairs, all inside both radii,
            # none omitted that is strictly closer in the custom distance
            if cname in ("lendiff", "halflev", "lev+lendiff"):
                for m in (1, 2):
                    for maxcd in (INF, 1):
                        exp = expected_custom(seqs, k, cname, maxcd)
                        res = acc.call(__import__("pyrepseq").kdtree, list(seqs), k, custom_distance=CUSTOM[cname], max_custom_distance=maxcd, max_returns=m)
                        acc.cls("kdtree-max_returns-with-callable")
                        if raised(res):
                            acc.fail("kdtree/custom-callable/max_returns/raised-%s" % res.type, ("list", seqs, cname), sorted(exp), res)
                            return
                        true = {}
                        for i, j, d in exp:
                            true.setdefault(i, {})[j] = d
                        got = {}
                        for i, j, d in res:
                            got.setdefault(int(i), {})[int(j)] = d
                        for i in range(len(seqs)):
                            t, g = true.get(i, {}), got.get(i, {})
                            omitted = [d for j, d in t.items() if j not in g]
                            if len(g) != min(m, len(t)) or any(j not in t or t[j] != d for j, d in g.items()) or (g and omitted and max(g.values()) > min(omitted)):
                                acc.fail("kdtree/custom-callable/max_returns/per-query-result", ("list", seqs, cname), {"query": i, "inside-both-radii": sorted(t.items()), "max_returns": m}, sorted(g.items()), note="k=%d maxcd=%r" % (k, maxcd))
                                return
                        acc.ok()
    elif kind == "one":
        _, eng, seqs, k, cname, maxcd, queries = case
        _cmp(acc, case, eng, list(seqs), k, cname, maxcd, None if queries is None else list(queries), True)
    elif kind == "hist":
        _check_history(acc, case)
    elif kind == "tcrhist":
        _check_tcr_history(acc, case)
    elif kind == "kdboundary":
        k = case[1]
        acc.cls("kdtree-radius-boundary")
        seqs = ["A" * k + "C", "D" * k + "C", "W" * k + "C", "A" * k + "CC", "Y" * k, "A" * k, "CASS" + "A" * k + "QYF", "CASS" + "G" * k + "QYF"]
        for kk in sorted({k, max(1, k - 1), k + 1}):
            for cname in ("halflev", "lev", "lendiff"):
                for maxcd in (INF, kk / 2):
                    _cmp(acc, case, "kdtree", seqs, kk, cname, maxcd, None, True)
    elif kind == "tcr-large":
        _check_tcr_large(acc, case)
    elif kind == "vtable":
        _check_vtable(acc, case)
    elif kind == "tcr":
        _check_tcr(acc, case)
    elif kind == "tcr1":
        _check_tcr_one(acc, *case[1:])
    else:
        raise HarnessError("unknown case %r" % (case,))


def _check_vtable(acc, case):
    import csv
    path = _data(case[1])
    rows = list(csv.reader(open(path)))
    cols = rows[0][1:]
    labels = [r[0] for r in rows[1:]]
    acc.transitions += 1
    problems = []
    if cols != labels:
        problems.append(("labels-differ", [c for c, l in zip(cols, labels) if c != l][:5]))
    if len(set(labels)) != len(labels):
        problems.append(("duplicate-labels", None))
    n = len(labels)
    M = [[float(x) for x in r[1:]] for r in rows[1:]]
    if any(len(r) != n for r in M):
        problems.append(("not-square", None))
    else:
        for i in range(n):
            acc.cls("vtable-entry", n)
            if M[i][i] != 0:
                problems.append(("diagonal-nonzero", (labels[i], M[i][i])))
            for j in range(n):
                if M[i][j] != M[j][i]:
                    problems.append(("asymmetric", (labels[i], labels[j], M[i][j], M[j][i])))
                if M[i][j] < 0 or M[i][j] != M[i][j]:
                    problems.append(("negative-or-nan", (labels[i], labels[j], M[i][j])))
    if problems:
        acc.fail("vtable/%s/%s" % (case[1], problems[0][0]), case, "square, same labels, symmetric, zero diagonal", problems[:5])
    else:
        acc.ok((case[1], n), nontrivial=True)


def _mk_df(rows, index="default"):
    import pandas as pd
    df = pd.DataFrame({
        "TRBV": [BV[r[0]] for r in rows], "CDR3B": [CDR3S[r[1]] for r in rows],
        "TRAV": [AV[r[2]] for r in rows], "CDR3A": [CDR3S[r[3]] for r in rows]})
    if index == "shifted":
        df.index = range(7, 7 + len(rows))
    elif index == "perm":
        df.index = [(i + 1) % len(rows) for i in range(len(rows))]
    return df


_VT = {}


def _vt(chain):
    import csv
    if chain not in _VT:
        rows = list(csv.reader(open(_data("vdists_%s.csv" % chain))))
        cols = rows[0][1:]
        _VT[chain] = {(r[0], c): float(x) for r in rows[1:] for c, x in zip(cols, r[1:])}
    return _VT[chain]


TCR_KW = ({}, {"dist_weight": 1}, {"ntrim": 2, "ctrim": 1}, {"gap_penalty": 4}, {"ntrim": 0})


def _check_tcr_history(acc, case):
    import numpy as np
    import pyrepseq
    _, rows, chain, h = case
    for step, ki in enumerate(h):
        acc.cls("tcrdist-kwargs-history")
        kwd = dict(TCR_KW[ki])
        snap = dict(kwd)
        df = _mk_df(rows)
        k_ = 1 if len(rows) == 4 and rows[1][1] == 7 else 2
        exp = expected_tcr(rows, chain, k_, True, 60, **kwd)
        res = acc.call(pyrepseq.nearest_neighbor_tcrdist, df, chain=chain, max_edits=k_, max_tcrdist=60, **({"tcrdist_kwargs": kwd} if kwd or step % 2 else {}))
        rc = ("tcrhist", rows, chain, tuple(h[:step + 1]))
        if raised(res):
            acc.fail("nearest_neighbor_tcrdist/history/raised-%s" % res.type, rc, sorted(exp), res)
            return
        arr = np.asarray(res)
        trip = [(int(r[0]), int(r[1]), float(r[2])) for r in arr.reshape(-1, 3)] if arr.size else []
        bad = diagnose(trip, {(i, j, float(d)) for i, j, d in exp})
        if bad is not None:
            acc.fail("nearest_neighbor_tcrdist/history/%s" % bad[0], rc, sorted(exp), sorted(trip), note="kwargs sequence %r" % ([TCR_KW[i] for i in h[:step + 1]],))
            return
        if kwd != snap:
            acc.fail("nearest_neighbor_tcrdist/caller-kwargs-modified", rc, snap, kwd)
            return
        acc.ok(("tcrh", ki, tuple(sorted(trip))), nontrivial=bool(exp))


def expected_tcr(rows, chain, max_edits, trimmed, max_tcrdist, ntrim=3, ctrim=2, dist_weight=3, gap_penalty=12):
    import pwseqdist
    n = len(rows)
    first = "alpha" if chain == "alpha" else "beta"
    def cdr3(r, ch):
        return CDR3S[r[1]] if ch == "beta" else CDR3S[r[3]]
    def v(r, ch):
        return BV[r[0]] if ch == "beta" else AV[r[2]]
    out = set()
    for i in range(n):
        for j in range(n):
            if i == j:
                continue
            a, b = cdr3(rows[i], first), cdr3(rows[j], first)
            if trimmed:
                a, b = a[ntrim:-ctrim], b[ntrim:-ctrim]
            if ref_lev(a, b) > max_edits:
                continue
            chains = ("beta", "alpha") if chain == "both" else (first,)
            tot = 0.0
            for ch in chains:
                tot += _vt(ch)[(v(rows[i], ch), v(rows[j], ch))]
                tot += pwseqdist.reference_tcrdist_cdr3(cdr3(rows[i], ch), cdr3(rows[j], ch), ntrim=ntrim, ctrim=ctrim, dist_weight=dist_weight, gap_penalty=gap_penalty, fixed_gappos=False)
            if tot <= max_tcrdist:
                out.add((i, j, tot))
    return out


def _check_tcr(acc, case):
    rows = case[1]
    for chain in ("beta", "alpha", "both"):
        for trimmed in (True, False):
            for k in (1, 2):
                for mt in (0, 12, 24, 1000):
                    for index in ("default", "shifted"):
                        if index == "shifted" and (k, mt) != (2, 24):
                            continue
                        _check_tcr_one(acc, rows, chain, trimmed, k, mt, index)


def _check_tcr_one(acc, rows, chain, trimmed, k, mt, index):
    import pyrepseq
    import numpy as np
    df = _mk_df(rows, index)
    exp = expected_tcr(rows, chain, k, trimmed, mt)
    if chain == "both":
        acc.cls("tcrdist-chain-both")
    if not exp:
        acc.cls("tcrdist-empty-result")
    res = acc.call(pyrepseq.nearest_neighbor_tcrdist, df, chain=chain, max_edits=k, edit_on_trimmed=trimmed, max_tcrdist=mt)
    case = ("tcr1", rows, chain, trimmed, k, mt, index)
    if raised(res):
        acc.fail("nearest_neighbor_tcrdist/raised-%s/%s" % (res.type, "no-candidate-pair" if not neighbors_any(rows, chain, trimmed, k) else "with-candidates"), case, sorted(exp), repr(res))
        return
    try:
        arr = np.asarray(res)
        trip = [(int(r[0]), int(r[1]), float(r[2])) for r in arr.reshape(-1, 3)] if arr.size else []
    except Exception as e:
        acc.fail("nearest_neighbor_tcrdist/malformed", case, sorted(exp), repr(res)[:200])
        return
    bad = diagnose(trip, {(i, j, float(d)) for i, j, d in exp})
    if bad is None:
        acc.ok(("tcr", chain, trimmed, k, mt, tuple(sorted(trip))), nontrivial=bool(exp))
    else:
        acc.fail("nearest_neighbor_tcrdist/%s/%s" % (chain, bad[0]), case, sorted(exp), sorted(trip), note=str(bad))


def _check_tcr_large(acc, case):
    """more than 1000 candidate pairs; the radius is put exactly on distance values that occur (<= must be inclusive)"""
    import numpy as np
    import pandas as pd
    import pyrepseq
    n = case[1]
    acc.cls("tcrdist-large-table")
    base = "CASSLGQAYEQYF"
    subs = "ADEGHKLNQRSTV"
    cdr3b = [base[:6] + subs[i % len(subs)] + base[7:] if i % 3 else base for i in range(n)]
    cdr3a = ["CAVRDSNYQLIW" if i % 4 else "CAVRDSNYKLIW" for i in range(n)]
    df = pd.DataFrame({"TRBV": [BV[i % 2] for i in range(n)], "CDR3B": cdr3b, "TRAV": [AV[0] if i % 5 else AV[1] for i in range(n)], "CDR3A": cdr3a})
    rows_like = None
    import pwseqdist
    vb, va = _vt("beta"), _vt("alpha")

    def term(i, j, ch):
        if ch == "beta":
            return vb[(df.TRBV[i], df.TRBV[j])] + pwseqdist.reference_tcrdist_cdr3(cdr3b[i], cdr3b[j])
        return va[(df.TRAV[i], df.TRAV[j])] + pwseqdist.reference_tcrdist_cdr3(cdr3a[i], cdr3a[j])
    for chain in ("both", "beta"):
        cand = [(i, j) for i in range(n) for j in range(n) if i != j and ref_lev(cdr3b[i][3:-2], cdr3b[j][3:-2]) <= 2]
        tot = {(i, j): term(i, j, "beta") + (term(i, j, "alpha") if chain == "both" else 0) for i, j in cand}
        radii = sorted(set(tot.values()))
        for mt in [radii[0], radii[len(radii) // 2], radii[-1]] + [0]:
            exp = {(i, j, float(d)) for (i, j), d in tot.items() if d <= mt}
            res = acc.call(pyrepseq.nearest_neighbor_tcrdist, df, chain=chain, max_edits=2, max_tcrdist=mt)
            if raised(res):
                acc.fail("nearest_neighbor_tcrdist/large-table/raised-%s" % res.type, case, len(exp), res)
                return
            arr = np.asarray(res)
            trip = [(int(r[0]), int(r[1]), float(r[2])) for r in arr.reshape(-1, 3)] if arr.size else []
            bad = diagnose(trip, exp)
            if bad is not None:
                acc.fail("nearest_neighbor_tcrdist/large-table/%s" % bad[0], case, len(exp), len(trip), note="chain=%s max_tcrdist=%s candidates=%d: %s" % (chain, mt, len(cand), bad[1]))
                return
            acc.ok(("tcrL", chain, mt, len(trip)), nontrivial=bool(exp))


def neighbors_any(rows, chain, trimmed, k):
    first = "alpha" if chain == "alpha" else "beta"
    seqs = [CDR3S[r[1]] if first == "beta" else CDR3S[r[3]] for r in rows]
    if trimmed:
        seqs = [s[3:-2] for s in seqs]
    return bool(neighbors_within(seqs, k))


# ------------------------------------------------------------------ histories on live index objects with changing distance functions
HIST_REFS = (("AC", "CA", "A", "AC", "ACC"), ("", "A", "CC", "CA"))
HIST_QUERIES = (("CA", "A", "AC"), ("C", "", "ACC"))
HIST_OPS = [(cn, mc) for cn in (None, "hamming", "lev", "2lev", "halflev", "lendiff") for mc in (INF, 1)]


def _hist_expected(ref, query, k, cname, maxcd):
    if cname is None:
        return neighbors_within(list(ref), k, queries=list(query))
    if cname == "hamming":
        return neighbors_within(list(ref), k, queries=list(query), dist="hamming")
    return expected_custom(list(ref), k, cname, maxcd, list(query))


def _hist_lookup(acc, kind, db, query, k, cname, maxcd):
    cd = cname if cname in (None, "hamming") else CUSTOM[cname]
    kw = dict(custom_distance=cd, max_custom_distance=maxcd)
    if kind == "LookupDB":
        kw["max_edits"] = k
    return acc.call(db.lookup, list(query), **kw)


def _check_history(acc, case):
    from pyrepseq.nn import SymdelDB, LookupDB
    _, kind, ri, qi, k, h = case
    ref, query = HIST_REFS[ri], HIST_QUERIES[qi]
    db = SymdelDB(list(ref), k) if kind == "SymdelDB" else LookupDB(list(ref))
    acc.transitions += 1
    for step, (cname, maxcd) in enumerate(h):
        acc.cls("history-step")
        if step and h[step - 1][0] != cname:
            acc.cls("history-changes-distance-function")
        res = _hist_lookup(acc, kind, db, query, k, cname, maxcd)
        exp = _hist_expected(ref, query, k, cname, maxcd)
        bad = diagnose(res, exp, self_mode=False)
        if bad is not None:
            acc.fail("%s/history/%s/%s" % (kind, "custom-callable" if cname not in (None, "hamming") else str(cname), bad[0]), ("hist", kind, ri, qi, k, tuple(h[:step + 1])), sorted(exp)[:20], digest(res), note="after %r" % (h[:step],))
            return
        acc.ok((kind, cname, maxcd, digest(res)), nontrivial=bool(exp))
