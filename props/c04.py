"""C04 - hash_based and kdtree return the same exact neighbour set as the default search."""
import math
import itertools
from mc.core import Space, HarnessError
from mc import enum as E
from mc.refmodel import neighbors_within, ref_ball
from mc.nnutil import diagnose, digest, run_self
from props.c01 import CDR3_SEEDS, AA, family

ID = "C04"
RULE = ("every case is executed on hash_based / kdtree and on nearest_neighbor; each result is compared with the absolute "
        "reference {(i,j,lev)<=k} and the engines' sets with each other (differential); non-trivial = expected set non-empty")
ASSUMPTIONS = ["hash_based is exponential in max_edits: k=2 up to U(.,4)/(thorough U(.,5) one alphabet), k=3 only on U(.,2)",
               "kdtree radius-boundary family uses homopolymer blocks so that the composition vectors differ by exactly sqrt(2)*k"]
REQUIRED_CLASSES = {"all": ["bin-straddling-alphabet", "radius-boundary-pair", "duplicate-at-distance-0", "has-empty-string", "size-boundary-family", "equal-length-pair-needs-indels", "long-anagram-pair", "all-sequences-of-one-length", "shared-prefix-and-suffix", "default-call-after-option-call", "one-composition-many-sequences", "hash_based-k3-sparse"]}
MIN_OUTCOMES = 10

ALPHAS = ("ACD", "DEF", "WYA")   # straddle kdtree composition bins at compression 1, 2, 3 (aminoacids = ACDEFGHIKLMNPQRSTVWY)


def spaces(tier):
    q = tier == "quick"

    def gen_kd():
        for alpha in ALPHAS:
            L = 5 if q else 7
            for k in (1, 2, 3, 4, 5):
                if not q and k > 3 and alpha != "ACD":
                    continue
                yield ("uni", "kdtree", alpha, L if k <= 3 else 5, k)
        for k in range(1, 13):
            yield ("boundary", k)

    def gen_hash():
        for alpha in ALPHAS:
            yield ("uni", "hash_based", alpha, 5 if q else 6, 1)
            yield ("uni", "hash_based", alpha, 3 if q else 4, 2)
            yield ("uni", "hash_based", alpha, 2, 3)

    def gen_lists():
        for seqs in E.lists(E.universe("AC", 2), 3 if q else 4):
            yield ("list", seqs)

    def gen_size():
        for N in (255, 256, 257, 1001, 1023, 1024, 1025, 2049) + (() if q else (4097, 10001, 65560, 100003)):
            yield ("sizefam", "kdtree", N, 1)
        for n in (126, 127, 128, 129, 200):
            yield ("anagram", n)
        for alpha, L in (("ACD", 4), ("AC", 6), ("ACDE", 3)):
            for k in (1, 2, 3):
                yield ("eqlen-uni", "kdtree", alpha, L, k)
        yield ("eqlen-uni", "hash_based", "ACD", 4, 1)
        yield ("eqlen-uni", "hash_based", "ACD", 3, 2)
        yield ("flanks",)
        yield ("after-max_returns",)
        for word in ("AACD", "ACDE", "AAACC", "CASSF"):
            for copies in (0, 11):
                yield ("samecomp", word, copies)
        if not q:
            yield ("hash4",)
        for si in range(len(SPARSE3)):
            yield ("hash3-sparse", si)
        yield ("sizefam", "kdtree", 1025, 2)
        for N in (257, 1025):
            yield ("sizefam", "hash_based", N, 1)

    def gen_eqlen():
        # every ordered pair of equal-length strings as a 2-element collection: all lengths equal, so a distance-2 pair related
        # by one insertion + one deletion is only reachable through strings of other lengths
        U4 = ["".join(t) for t in itertools.product("ACD", repeat=4)]
        for a in U4:
            yield ("eqlen", a)

    def gen_family():
        for si in range(len(CDR3_SEEDS)):
            yield ("family", "kdtree", si, 1)
            yield ("family", "kdtree", si, 2)
            yield ("family", "hash_based", si, 1)

    return [
        Space("kdtree-universes", gen_kd, "U(alphabet,5|7) for alphabets %s, k in 1..5, plus the radius-boundary family x^k.C vs y^k.C, k=1..12" % (ALPHAS,), per_case=True),
        Space("hash_based-universes", gen_hash, "U(.,5|6) k=1; U(.,3|4) k=2; U(.,2) k=3", per_case=True),
        Space("size-boundary-family", gen_size, "collections of 255..2049 incl. 1001 (thorough: 4097, 10001, 65560, 100003) strings; block-swap anagram pairs of 2x126..2x200 residues (distance exactly 2n) with a clonal family at the positions next to 0, 256, 1024, 65536 and the end; kdtree (k=1,2) and hash_based (k=1)", per_case=True),
        Space("equal-length-pairs", gen_eqlen, "every ordered pair of 4-letter strings over ACD as a 2-element collection (one case = one first string against all 81) on hash_based and kdtree, k in 1..2"),
        Space("all-lists-three-engines", gen_lists, "Lists(U(AC,2),3|4) x k in 1..2 on hash_based, kdtree, nearest_neighbor (k=3: kdtree only)"),
        Space("cdr3-edit-ball-families", gen_family, "complete 20-letter one-edit ball around %d CDR3 seeds: kdtree k in 1..2, hash_based k=1" % len(CDR3_SEEDS), per_case=True),
    ]


SPARSE3 = (("ACD", "EFG", "WW"), ("AC", "", "A", "C", "AD", "CC", "ACD", "ACDE", "WWWWW"), ("CAF", "CSY", "AAF", "WWW", "C"), ("ACDE", "AFGH", "W"))


def compare(acc, case, eng, seqs, k, expected, small):
    res = run_self(acc, eng, list(seqs), k)
    bad = diagnose(res, expected)
    if bad is None:
        acc.ok((eng, k, digest(res)) if small else (eng, case, len(res)), nontrivial=bool(expected))
        return res
    fclass, detail = bad
    rcase, rexp, robs = ("one", eng, tuple(seqs), k) if small else case, sorted(expected)[:20], digest(res)
    if not small and isinstance(detail, tuple) and len(detail) >= 2 and isinstance(detail[0], int):
        red = (seqs[detail[0]], seqs[detail[1]])
        e2 = neighbors_within(list(red), k)
        r2 = run_self(acc, eng, list(red), k)
        if diagnose(r2, e2) is not None:
            rcase, rexp, robs = ("one", eng, red, k), sorted(e2), digest(r2)
    acc.fail("%s/levenshtein/%s" % (eng, fclass), rcase, rexp, robs if isinstance(robs, str) else robs[:30], note="%s %s" % (fclass, detail))
    return res


def check_case(case, acc):
    kind = case[0]
    if kind == "uni":
        _, eng, alpha, L, k = case
        seqs = E.universe(alpha, L)
        expected = neighbors_within(seqs, k)
        acc.cls("bin-straddling-alphabet")
        acc.cls("has-empty-string")
        acc.extra["pairs_decided"] += len(seqs) * (len(seqs) - 1)
        res = compare(acc, case, eng, seqs, k, expected, False)
        base = run_self(acc, "nearest_neighbor", list(seqs), k)
        if digest(res) != digest(base) and diagnose(res, expected) is None:
            acc.fail("%s/differs-from-nearest_neighbor" % eng, case, "same set as nearest_neighbor", "different")
    elif kind == "boundary":
        k = case[1]
        # composition vectors differ by (+k, -k): Euclidean distance exactly sqrt(2)*k, Levenshtein exactly k
        seqs = ["A" * k + "C", "D" * k + "C", "W" * k + "C", "A" * k + "CC", "Y" * k, "A" * k]
        acc.cls("radius-boundary-pair")
        for kk in sorted({k, max(1, k - 1), k + 1}):
            expected = neighbors_within(seqs, kk)
            compare(acc, ("one", "kdtree", tuple(seqs), kk), "kdtree", seqs, kk, expected, True)
    elif kind == "list":
        seqs = case[1]
        if len(set(seqs)) < len(seqs):
            acc.cls("duplicate-at-distance-0")
        if "" in seqs:
            acc.cls("has-empty-string")
        for k in (1, 2, 3):
            expected = neighbors_within(list(seqs), k)
            outs = {}
            for eng in ("nearest_neighbor", "kdtree") + (("hash_based",) if k < 3 else ()):
                outs[eng] = digest(compare(acc, case, eng, seqs, k, expected, True))
            if len(set(outs.values())) != 1 and not acc.fails:
                acc.fail("engines-disagree", ("list", seqs), "one set", outs)
    elif kind == "sizefam":
        _, eng, N, k = case
        seqs, pos = E.size_family(N)
        acc.cls("size-boundary-family")
        compare(acc, case, eng, seqs, k, neighbors_within(seqs, k), False)
    elif kind == "eqlen-uni":
        _, eng, alpha, L, k = case
        seqs = ["".join(t) for t in itertools.product(alpha, repeat=L)]
        acc.cls("all-sequences-of-one-length")
        compare(acc, case, eng, seqs, k, neighbors_within(seqs, k), False)
    elif kind == "after-max_returns":
        # interchangeable engines: a default kdtree call gives the full neighbour set also after kdtree calls that used its options
        import pyrepseq
        acc.cls("default-call-after-option-call")
        hub = ["CASSLG", "CASSLA", "CASSLC", "CASSLD", "CASSL", "CASSLGG", "AASSLG", "CWSSLG"]
        acc.call(pyrepseq.kdtree, ["CAF", "CAW", "CAY", "CAH"], 1, max_returns=1)
        acc.call(pyrepseq.kdtree, list(hub), 2, max_returns=2, compression=3, custom_distance="hamming")
        for k in (1, 2):
            exp = neighbors_within(hub, k)
            for eng in ("kdtree", "hash_based"):
                compare(acc, case, eng, hub, k, exp, True)
    elif kind == "hash3-sparse":
        # sparse collections at radius 3: the strings between two neighbours (their "stepping stones") are not in the collection,
        # and a sequence has more than five distinct neighbours
        acc.cls("hash_based-k3-sparse")
        seqs = SPARSE3[case[1]]
        for k in (3, 2):
            exp = neighbors_within(list(seqs), k)
            for eng in ("hash_based", "kdtree"):
                compare(acc, ("one", eng, tuple(seqs), k), eng, seqs, k, exp, True)
    elif kind == "hash4":
        acc.cls("hash_based-k4")
        seqs = ["", "AC", "A"]
        compare(acc, case, "hash_based", seqs, 4, neighbors_within(seqs, 4), True)
    elif kind == "flanks":
        # CDR3-like collections: every member shares a prefix and a suffix (C...F), members differ by indels in a repeated stretch
        fam = ["CASSF", "CASF", "CASSSF", "CAF", "CASSSSF", "CSF", "CASAF"]
        acc.cls("shared-prefix-and-suffix")
        for n in (2, 3, 4):
            for sub in itertools.combinations(fam, n):
                for k in (1, 2, 3):
                    exp = neighbors_within(list(sub), k)
                    for eng in ("kdtree",) + (("hash_based",) if k <= 2 else ()):
                        if compare(acc, ("one", eng, tuple(sub), k), eng, sub, k, exp, True) is None:
                            pass
    elif kind == "samecomp":
        # more than ten sequences of one and the same composition that are not all identical (anagrams, a clone plus its transpositions)
        _, word, copies = case
        acc.cls("one-composition-many-sequences")
        seqs = E.composition_family(word, copies, extra=("CA", word + "A", word[:-1]))
        for k in (1, 2, 3):
            exp = neighbors_within(seqs, k)
            for eng in ("kdtree",) + (("hash_based",) if k <= (2 if len(word) <= 4 else 1) else ()):
                compare(acc, case + (eng, k), eng, seqs, k, exp, False)
    elif kind == "anagram":
        # block swaps: identical composition (always KD-tree candidates of each other) at a large, exactly known distance
        n = case[1]
        acc.cls("long-anagram-pair")
        seqs = ["A" * n + "C" * n, "C" * n + "A" * n, "A" * n + "C" * (n - 1) + "A", "A" * (n - 1) + "CA" + "C" * (n - 1)]
        for k in (1, 2, 3):
            exp = neighbors_within(seqs, k)
            for eng in ("kdtree",) + (("hash_based",) if k == 1 else ()):
                compare(acc, ("one", eng, tuple(seqs), k), eng, seqs, k, exp, True)
    elif kind == "eqlen":
        a = case[1]
        for t in itertools.product("ACD", repeat=4):
            b = "".join(t)
            for k in (1, 2):
                exp = neighbors_within([a, b], k)
                if k == 2 and exp and sum(x != y for x, y in zip(a, b)) > 2:
                    acc.cls("equal-length-pair-needs-indels")
                for eng in ("hash_based", "kdtree"):
                    compare(acc, ("one", eng, (a, b), k), eng, (a, b), k, exp, True)
    elif kind == "one":
        _, eng, seqs, k = case
        compare(acc, case, eng, seqs, k, neighbors_within(list(seqs), k), True)
    elif kind == "family":
        _, eng, si, k = case
        seqs = family(si, 1, AA)
        expected = neighbors_within(seqs, k)
        acc.extra["pairs_decided"] += len(seqs) * (len(seqs) - 1)
        res = compare(acc, case, eng, seqs, k, expected, False)
        base = run_self(acc, "nearest_neighbor", list(seqs), k)
        if digest(res) != digest(base) and diagnose(res, expected) is None:
            acc.fail("%s/differs-from-nearest_neighbor" % eng, case, "same set as nearest_neighbor", "different")
    else:
        raise HarnessError("unknown case %r" % (case,))
