"""C17 - resampling and power-law utilities conserve counts and honour their bounds."""
import itertools
import math
from fractions import Fraction
from mc.core import Space, HarnessError, raised
from mc import enum as E
from mc.refmodel import feq
from mc.seams import explore_choices, rng_seam, UNIFORM_GRID

ID = "C17"
RULE = ("subsample / downsample / powerlaw_sample run under the RNG seam: every answer numpy.random.choice / rand can give is enumerated with "
        "its exact probability; conservation laws are checked on every answer and the exact output distribution of subsample is compared "
        "with the multivariate hypergeometric law; powerlaw_mle_alpha on every multiset of <= 5 counts against the closed forms / an own "
        "zeta-likelihood grid; non-trivial = a draw that really removes items")
ASSUMPTIONS = ["uniform variates cannot be enumerated: answered from the boundary grid %r (both ends of [0,1))" % (UNIFORM_GRID,),
               "ordered samples are enumerated when there are at most 720 of them, otherwise every unordered subset in ascending and descending order",
               "'exact' MLE: the log-likelihood is concave in alpha, so the maximiser lies within one grid step of the best of 3001 grid points"]
REQUIRED_CLASSES = {"all": ["subsample-n-equals-total", "subsample-n-too-large", "zero-count-category", "downsample-identity", "downsample-table", "uniform-near-1", "mle-all-counts-equal-cmin", "many-categories", "sparse-draw", "transformation-overflows", "optimiser-stopped-early", "downsample-missing-entries"]}
MIN_OUTCOMES = 10


def spaces(tier):
    q = tier == "quick"

    def gen_sub():
        tot = 6 if q else 10
        for L in range(1, 5):
            for c in itertools.product(range(4 if q else 5), repeat=L):
                if sum(c) <= tot:
                    yield ("subsample", c)

    def gen_many():
        for ncat in (255, 256, 257, 300) + (() if q else (65537,)):
            for top in (1, 3):
                yield ("subsample-many", ncat, top)

    def gen_sparse():
        for counts in ((60, 50, 40, 1), (1, 120), (101,), (3, 0, 100, 2), (40, 40, 40, 40)):
            yield ("subsample-sparse", counts)
        for N in (65, 129, 130):
            yield ("downsample-long", N)

    def gen_down():
        for n in range(0, 5 if q else 6):
            for seqs in itertools.combinations_with_replacement(("A", "B", "AB"), n):
                yield ("downsample", seqs)
        # collections with missing entries (None): they are elements like any other and come back as they went in
        for n in range(2, 5):
            for seqs in itertools.combinations_with_replacement(("A", None, "B"), n):
                if None in seqs:
                    yield ("downsample", seqs)

    def gen_pl():
        for size in (0, 1, 2, 3):
            for xmin in (1, 2, 3, 4):
                for alpha in (1.5, 2.0, 3.5, 1.01):     # 1.01: so heavy a tail that the documented transformation overflows double range near u = 1
                    yield ("powerlaw_sample", size, xmin, alpha)

    def gen_mle():
        for n in range(1, 5 if q else 6):
            for c in itertools.combinations_with_replacement(range(1, 7), n):
                yield ("mle", c)

    return [
        Space("subsample-all-count-vectors", gen_sub, "count vectors of length 1..4, entries 0..3 (thorough 0..4), total <= 6 (quick) / 10 (thorough) x n in 0..total+1 x every RNG answer", shards=64),
        Space("subsample-many-categories", gen_many, "count vectors with 255..300 (thorough: 65537) categories, entries cycling through 0..top: n = total (one possible sub-sample, both orders) and n = 1 (every single item), conservation laws on every RNG answer", per_case=True),
        Space("sparse-draws", gen_sparse, "subsample of n=1 (and n=2 for totals <= 130) items out of 101..151; downsample of 2 out of 65..130 distinct elements of an ndarray/list: every RNG answer, exact uniformity over items / pairs", per_case=True),
        Space("downsample-all-multisets", gen_down, "multisets of 0..4(5) strings over {A,B,AB} and of 2..4 entries over {A,None,B} containing None, as list/ndarray/Series/table/table with duplicated index labels x maxseqs in {None,0..N+1} x every RNG answer"),
        Space("powerlaw_sample-uniform-grid", gen_pl, "size 0..3 x xmin 1..4 x alpha {1.5,2,3.5,1.01} x uniform grid^size"),
        Space("powerlaw_mle-all-multisets", gen_mle, "multisets of 1..4(5) counts from 1..6 x cmin {1, 2, 1.5, 2.5} (closed forms; exact fit for integer cmin) x 3 methods"),
    ]


def hurwitz(s, q, N=60):
    tot = sum((k + q) ** -s for k in range(N))
    a = N + q
    return tot + a ** (1 - s) / (s - 1) + a ** -s / 2 + s * a ** (-s - 1) / 12 - s * (s + 1) * (s + 2) * a ** (-s - 3) / 720


def loglik(xs, alpha, xmin):
    return -len(xs) * math.log(hurwitz(alpha, xmin)) - alpha * sum(math.log(x) for x in xs)


def check_case(case, acc):
    import numpy as np
    import pandas as pd
    import pyrepseq
    kind = case[0]
    if kind == "subsample":
        counts = case[1]
        N = sum(counts)
        if 0 in counts:
            acc.cls("zero-count-category")
        for n in range(0, N + 2):
            holder = {}

            def run(ch):
                with rng_seam(ch) as seam:
                    r = acc.call(pyrepseq.subsample, list(counts), n)
                    holder["prob"], holder["log"] = seam.prob, list(seam.log)
                return r
            if n > N:
                acc.cls("subsample-n-too-large")
                r = run(__import__("mc.seams", fromlist=["Chooser"]).Chooser())
                if not raised(r):
                    acc.fail("subsample/n-larger-than-total-accepted", ("subsample1", counts, n), "an exception", [x.tolist() for x in r])
                    return
                acc.ok(("too-large", r.type))
                continue
            if n == N:
                acc.cls("subsample-n-equals-total")
            dist = {}
            nexec = 0
            for choices, r in explore_choices(run):
                nexec += 1
                log = holder["log"]
                if raised(r):
                    acc.fail("subsample/raised-%s" % r.type, ("subsample1", counts, n), "indices, counts", r)
                    return
                if len(log) != 1 or log[0][:4] != ("choice", N, n, False) or log[0][4] is not None:
                    acc.fail("subsample/rng-usage", ("subsample1", counts, n), "one uniform draw of %d of %d items without replacement" % (n, N), log)
                    return
                idx, cnt = [int(x) for x in r[0]], [int(x) for x in r[1]]
                problems = []
                if idx != sorted(set(idx)):
                    problems.append("indices not sorted/unique")
                if any(c <= 0 for c in cnt):
                    problems.append("non-positive count")
                if sum(cnt) != n:
                    problems.append("counts sum to %d, not %d" % (sum(cnt), n))
                if len(idx) != len(cnt) or any(i < 0 or i >= len(counts) or c > counts[i] for i, c in zip(idx, cnt)):
                    problems.append("count exceeds original")
                if problems:
                    acc.fail("subsample/conservation", ("subsample1", counts, n), "sorted unique indices, positive counts summing to n, each <= original", {"indices": idx, "counts": cnt, "problems": problems}, note="choices=%r" % (choices,))
                    return
                m = [0] * len(counts)
                for i, c in zip(idx, cnt):
                    m[i] = c
                dist[tuple(m)] = dist.get(tuple(m), 0) + holder["prob"]
            # exact output distribution == multivariate hypergeometric
            exp = {}
            for m in itertools.product(*[range(c + 1) for c in counts]):
                if sum(m) == n:
                    exp[m] = Fraction(math.prod(math.comb(c, x) for c, x in zip(counts, m)), math.comb(N, n))
            if sum(dist.values()) != 1:
                raise HarnessError("seam probabilities sum to %s" % sum(dist.values()))
            if dist != exp:
                acc.fail("subsample/not-uniform-over-items", ("subsample1", counts, n), {str(k): str(v) for k, v in exp.items()}, {str(k): str(v) for k, v in dist.items()})
                return
            acc.extra["rng_answers"] += nexec
            acc.ok((counts, n, len(exp)), nontrivial=0 < n < N)
    elif kind == "subsample-many":
        _, ncat, top = case
        counts = [(i * 7 + 3) % (top + 1) for i in range(ncat)]
        counts[-1] = top
        N = sum(counts)
        acc.cls("many-categories")
        for n in (N, 1) if ncat < 1000 else (N,):
            holder = {}

            def run(ch):
                with rng_seam(ch) as seam:
                    return acc.call(pyrepseq.subsample, list(counts), n)
            seen_items = 0
            for choices, r in explore_choices(run):
                if raised(r):
                    acc.fail("subsample/many-categories/raised-%s" % r.type, case, "indices, counts", r)
                    return
                idx, cnt = [int(x) for x in r[0]], [int(x) for x in r[1]]
                bad = (idx != sorted(set(idx)) or any(c <= 0 for c in cnt) or sum(cnt) != n or len(idx) != len(cnt)
                       or any(i < 0 or i >= ncat or c > counts[i] for i, c in zip(idx, cnt)))
                if n == N and not bad:
                    bad = idx != [i for i, c in enumerate(counts) if c > 0] or cnt != [c for c in counts if c > 0]
                if bad:
                    acc.fail("subsample/many-categories/conservation", case, "sorted unique indices < %d, positive counts <= original, sum %d" % (ncat, n),
                             {"indices": idx[:12], "counts": cnt[:12], "n_categories_returned": len(idx)}, note="n=%d" % n)
                    return
                seen_items += 1
            if n == 1 and seen_items != N:
                acc.fail("subsample/many-categories/not-every-item-reachable", case, N, seen_items)
                return
            acc.ok((ncat, top, n, seen_items), nontrivial=True)
    elif kind == "subsample-sparse":
        counts = case[1]
        N = sum(counts)
        acc.cls("sparse-draw")
        for n in (1,):
            holder = {}

            def run(ch):
                with rng_seam(ch) as seam:
                    r = acc.call(pyrepseq.subsample, list(counts), n)
                    holder["prob"] = seam.prob
                return r
            dist = {}
            for choices, r in explore_choices(run):
                if raised(r):
                    acc.fail("subsample/sparse/raised-%s" % r.type, case, "indices, counts", r)
                    return
                idx, cnt = [int(x) for x in r[0]], [int(x) for x in r[1]]
                if len(idx) != 1 or cnt != [1] or not (0 <= idx[0] < len(counts)) or counts[idx[0]] == 0:
                    acc.fail("subsample/sparse/conservation", case, "one item of a non-empty category", {"indices": idx, "counts": cnt})
                    return
                dist[idx[0]] = dist.get(idx[0], 0) + holder["prob"]
            exp = {i: Fraction(c, N) for i, c in enumerate(counts) if c}
            if dist != exp:
                acc.fail("subsample/not-uniform-over-items", case, {str(k): str(v) for k, v in exp.items()}, {str(k): str(v) for k, v in dist.items()}, note="n=1 of %d" % N)
                return
            acc.ok((counts, len(dist)), nontrivial=True)
    elif kind == "downsample-long":
        N = case[1]
        acc.cls("sparse-draw")
        for cname in ("ndarray", "list"):
            seqs = ["s%03d" % i for i in range(N)]
            holder = {}

            def run(ch):
                box = np.array(seqs) if cname == "ndarray" else list(seqs)
                with rng_seam(ch) as seam:
                    r = acc.call(pyrepseq.downsample, box, 2)
                    holder["prob"] = seam.prob
                return r
            total = Fraction(0)
            pairs = {}
            for choices, r in explore_choices(run):
                if raised(r):
                    acc.fail("downsample/long-%s/raised-%s" % (cname, r.type), case, "2 elements", r)
                    return
                out = [str(x) for x in r]
                if len(out) != 2 or out[0] == out[1] or any(o not in seqs for o in out):
                    acc.fail("downsample/long-%s/not-exactly-maxseqs-distinct-elements" % cname, case, "2 distinct elements of the input", out, note="RNG answers %r" % (choices,))
                    return
                key = tuple(sorted(out))
                pairs[key] = pairs.get(key, 0) + holder["prob"]
                total += holder["prob"]
            if total != 1 or len(pairs) != N * (N - 1) // 2 or len(set(pairs.values())) != 1:
                acc.fail("downsample/long-%s/not-uniform-over-pairs" % cname, case, "%d equally likely pairs" % (N * (N - 1) // 2), "%d pairs, %d distinct probabilities, total %s" % (len(pairs), len(set(pairs.values())), total))
                return
            acc.ok((N, cname, len(pairs)), nontrivial=True)
    elif kind == "subsample1":
        check_case(("subsample", case[1]), acc)
    elif kind == "downsample":
        seqs = list(case[1])
        N = len(seqs)
        if None in seqs:
            acc.cls("downsample-missing-entries")
        boxes = {"list": lambda: list(seqs), "tuple": lambda: tuple(seqs), "ndarray": lambda: np.array(seqs, dtype=object) if not seqs else np.array(seqs), "series": lambda: pd.Series(seqs, index=range(3, 3 + N), dtype=object),
                 "table": lambda: pd.DataFrame({"CDR3B": seqs, "k": list(range(N))}, index=range(7, 7 + N)),
                 "table-duplicate-labels": lambda: pd.DataFrame({"CDR3B": seqs, "k": list(range(N))}, index=[i // 2 for i in range(N)])}
        for bname, mk in boxes.items():
            for m in [None] + list(range(0, N + 2)):
                holder = {}

                def run(ch):
                    x = mk()
                    holder["x"] = x
                    with rng_seam(ch) as seam:
                        r = acc.call(pyrepseq.downsample, x, m)
                        holder["log"] = list(seam.log)
                    return r
                for choices, r in explore_choices(run):
                    x = holder["x"]
                    key = "downsample/%s/" % bname
                    rc = ("downsample", case[1])
                    if raised(r):
                        acc.fail(key + "raised-" + r.type, rc, "a sub-sample", r, note="maxseqs=%r" % m)
                        return
                    if m is None or N <= m:
                        acc.cls("downsample-identity")
                        if r is not x or holder["log"]:
                            acc.fail(key + "not-identity", rc, "the input object itself", repr(r)[:200], note="maxseqs=%r" % m)
                            return
                        acc.ok((bname, "identity"))
                        continue
                    if bname.startswith("table"):
                        acc.cls("downsample-table")
                        ok = isinstance(r, pd.DataFrame) and len(r) == m and list(r.columns) == list(x.columns)
                        if ok:
                            # a subset of rows: (label, row values) pairs form a sub-multiset of the input's, the unique column k never repeats
                            rest = [(lbl, tuple(row)) for lbl, row in zip(x.index, x.values.tolist())]
                            for item in [(lbl, tuple(row)) for lbl, row in zip(r.index, r.values.tolist())]:
                                if item in rest:
                                    rest.remove(item)
                                else:
                                    ok = False
                    else:
                        out = list(r)
                        rest = list(seqs)
                        ok = len(out) == m
                        for o in out:
                            if o in rest:
                                rest.remove(o)
                            else:
                                ok = False
                    if not ok:
                        acc.fail(key + "not-a-sub-multiset-of-size-maxseqs", rc, "exactly %d elements forming a sub-multiset of %r" % (m, seqs), repr(r)[:300], note="maxseqs=%r choices=%r" % (m, choices))
                        return
                    if any(l[0] != "choice" or l[3] for l in holder["log"]):
                        acc.fail(key + "rng-usage", rc, "draw without replacement", holder["log"])
                        return
                    acc.ok((bname, m, tuple(sorted(map(str, list(r) if not bname.startswith("table") else r.index)))), nontrivial=True)
    elif kind == "powerlaw_sample":
        _, size, xmin, alpha = case
        holder = {}

        def run(ch):
            with rng_seam(ch) as seam:
                r = acc.call(pyrepseq.powerlaw_sample, size, float(xmin), alpha)
                holder["log"] = list(seam.log)
            return r
        for choices, r in explore_choices(run):
            if any(UNIFORM_GRID[c] > 0.99 for c in choices):
                acc.cls("uniform-near-1")
            if raised(r):
                acc.fail("powerlaw_sample/raised-%s" % r.type, case, "samples", r, note="uniforms=%r" % [UNIFORM_GRID[c] for c in choices])
                return
            vals = np.asarray(r).tolist()
            # exact value of the documented transformation (IEEE: +inf where the power leaves double range)
            def transf(u):
                try:
                    return float(math.floor((xmin - 0.5) * (1.0 - u) ** (-1.0 / (alpha - 1.0)) + 0.5))
                except OverflowError:
                    return float("inf")
            exp = [transf(UNIFORM_GRID[c]) for c in choices]
            if any(math.isinf(e) for e in exp):
                acc.cls("transformation-overflows")
            if len(vals) != size or any(v != v or v < xmin or (math.isinf(v) and not math.isinf(e)) or (not math.isinf(v) and v != math.floor(v)) for v, e in zip(vals, exp)):
                acc.fail("powerlaw_sample/bounds", case, "%d integer-valued numbers >= %d" % (size, xmin), vals, note="uniforms=%r" % [UNIFORM_GRID[c] for c in choices])
                return
            if vals != exp:
                acc.fail("powerlaw_sample/transformation", case, exp, vals)
                return
            acc.ok((size, xmin, alpha, tuple(vals)), nontrivial=size > 0)
        if size == 2:
            r = acc.call(lambda: _with_seam_default(pyrepseq.powerlaw_sample, 2.0, xmin, alpha))
            if raised(r) or len(r) != 2:
                acc.fail("powerlaw_sample/float-size", case, 2, r)
            else:
                acc.ok()
    elif kind == "mle":
        c = list(case[1])
        for cmin in (1, 2, 2.5, 1.5):
            xs = [x for x in c if x >= cmin]
            n = len(xs)
            for arr in (c, np.array(c), np.array(c, dtype=np.uint8), np.array(c, dtype=np.int16), np.array(c, dtype=np.uint32), tuple(c), pd.Series(c, index=range(3, 3 + len(c)))):
                for method, shift in (("simple", 0.0), ("continuitycorrection", 0.5)):
                    r = acc.call(pyrepseq.powerlaw_mle_alpha, arr, cmin=cmin, method=method)
                    den = sum(math.log(x / (cmin - shift)) for x in xs)
                    if n == 0:
                        exp = float("nan")
                    elif den == 0:
                        exp = float("inf")
                        acc.cls("mle-all-counts-equal-cmin")
                    else:
                        exp = 1.0 + n / den
                    if raised(r) or not feq(r, exp, rel=1e-12):
                        acc.fail("powerlaw_mle_alpha/%s" % method, ("mle1", case[1], cmin, method), exp, r)
                        return
                    acc.ok((method, cmin, round(exp, 9) if math.isfinite(exp) else str(exp)), nontrivial=n > 0 and den > 0)
            if n == 0 or cmin != int(cmin):
                continue
            for bounds in ((1.5, 4.5), (1.1, 3.0)):
                kw = {} if bounds == (1.5, 4.5) else {"bounds": list(bounds)}
                r = acc.call(pyrepseq.powerlaw_mle_alpha, np.array(c), cmin=cmin, method="exact", **kw)
                lo, hi = bounds
                grid = [lo + (hi - lo) * i / 3000 for i in range(3001)]
                ll = [loglik(xs, a, cmin) for a in grid]
                best = max(range(3001), key=lambda i: ll[i])
                step = (hi - lo) / 3000
                ok = (not raised(r)) and lo - 1e-9 <= float(r) <= hi + 1e-9 and abs(float(r) - grid[best]) <= 2 * step + 1e-4
                if not ok:
                    acc.fail("powerlaw_mle_alpha/exact", ("mle1", case[1], cmin, "exact"), {"grid_argmax": grid[best], "bounds": bounds}, r)
                    return
                acc.ok(("exact", cmin, round(grid[best], 3)), nontrivial=True)
                if bounds == (1.5, 4.5):
                    # optimiser options are forwarded; an optimiser that is stopped early must not pass off its last iterate as the
                    # maximiser: either it refuses (raises) or the answer is the maximiser
                    acc.cls("optimiser-stopped-early")
                    r3 = acc.call(pyrepseq.powerlaw_mle_alpha, np.array(c), cmin=cmin, method="exact", options=dict(maxiter=3))
                    if not raised(r3) and not (abs(float(r3) - grid[best]) <= 2 * step + 1e-4):
                        acc.fail("powerlaw_mle_alpha/exact/early-stop-returned-as-maximiser", ("mle1", case[1], cmin, "exact"), {"grid_argmax": grid[best], "or": "an exception"}, r3)
                        return
                    acc.ok()
        r = acc.call(pyrepseq.powerlaw_mle_alpha, c, method="nonsense")
        if not (raised(r) and r.type == "ValueError"):
            acc.fail("powerlaw_mle_alpha/unknown-method-accepted", case, "ValueError", r)
        else:
            acc.ok()
    elif kind == "mle1":
        check_case(("mle", case[1]), acc)
    else:
        raise HarnessError("unknown case %r" % (case,))


def _with_seam_default(fn, *a):
    from mc.seams import Chooser
    with rng_seam(Chooser()):
        return fn(*a)
