"""C20 - calls are pure: arguments stay untouched and results ignore call history."""
import hashlib
import itertools
import json
import os
import pickle
import subprocess
import sys
import time
from mc.core import Space, HarnessError, raised, VERIF, REPO

ID = "C20"
RULE = ("operation alphabet = one representative call of every public function/method (143 operations incl. randomised calls under a fixed NumPy "
        "seed and calls that raise); reference = each operation alone in a process forked from the pristine import state (cross-checked against "
        "truly fresh interpreters); explored: every single operation, every ordered pair (no state abstraction), triples over the stateful "
        "operations, and a BFS over canonical module states (data globals, __defaults__/__kwdefaults__, class attributes) where every operation "
        "is applied in every reachable state; at every step argument snapshots are compared before/after and the canonical result with the "
        "reference; non-trivial = history whose earlier operations changed the canonical module state")
ASSUMPTIONS = ["every returned object is overwritten in place by the harness after it has been canonicalised (results belong to the caller; a shared/cached return value would change a later result)",
               "five long-lived objects (two TCR metrics with non-default weights, a weighted Levenshtein metric, a SymdelDB and a LookupDB) are built at the start of every history and used by 'fixture-*' operations, so operations that disturb existing objects change a later result",
               "state hidden inside third-party libraries (tidytcells caches, matplotlib rcParams, igraph RNG) is only observable through results; Python's random is re-seeded and pyplot figures are closed between operations",
               "a history runs in a child forked from a worker that never executes pyrepseq operations itself; equivalence of fork-from-pristine and a fresh interpreter is checked on a subset (quick) / all (thorough) operations",
               "matplotlib Axes passed as ax= are meant to be drawn on and are excluded from the argument-purity comparison"]
REQUIRED_CLASSES = {"all": ["randomised-call-seeded", "call-that-raises", "history-after-raising-call", "module-state-changed-by-history", "option-dict-argument", "bfs-state", "fresh-interpreter-conformance"]}
MIN_OUTCOMES = 10

_OPS = None
R0 = {}            # op name -> canonical result of the operation alone from the pristine state
S0 = None          # canonical pristine module state
STATEFUL = ("kdtree", "kdtree-hamming", "kdtree-custom-ncpu2", "kdtree-short-list", "similarity_clustermap", "similarity_clustermap-norm", "similarity_clustermap-cbar_kws",
            "hierarchical_clustering", "hierarchical_clustering-kws", "labels_to_colors_hls", "nearest_neighbor_tcrdist-kwargs", "seqlogos", "raise-kdtree-ncpu0", "pcDelta-maxseqs",
            "kdtree-maxreturns-ncpu2", "pc_conditional-ndarray-weights",
            "fixture-Cdr3Levenshtein-cdist", "fixture-CdrLevenshtein-pdist", "fixture-WeightedLevenshtein-cdist", "fixture-SymdelDB-lookup", "fixture-SymdelDB-lookup-hamming",
            "fixture-LookupDB-lookup-k2", "fixture-LookupDB-lookup-k1-custom", "new-Cdr3Levenshtein-default-cdist", "new-WeightedLevenshtein-312-pdist",
            "multimerge-index-suffixes", "find_neighbor_pairs-set", "seqlogos-styled", "seqlogos_vj-styled", "load_pcDelta_background", "powerlaw_mle_alpha-exact-bounds", "powerlaw_mle_alpha-exact", "nearest_neighbor_tcrdist")


def ops():
    global _OPS
    if _OPS is None:
        from props.c20_ops import ops as mk
        _OPS = {name: (fac, seed) for name, fac, seed in mk()}
    return _OPS


def _digest(x):
    return hashlib.sha1(json.dumps(x, sort_keys=True, default=str).encode()).hexdigest()[:16]


def _strip_mpl(args, kwargs):
    def ok(v):
        m = type(v).__module__ or ""
        if m.startswith("matplotlib") and hasattr(v, "get_bad"):
            return True         # colormap objects are option values: they must come back unchanged
        if m.startswith("matplotlib"):
            return False
        if isinstance(v, (list, tuple)) and v and all((type(e).__module__ or "").startswith("matplotlib") for e in v):
            return False
        return True
    return [a for a in args if ok(a)], {k: v for k, v in kwargs.items() if ok(v) and k != "ax"}


def run_ops_here(names):
    """Execute the operations in this process (only ever called in a throw-away child / fresh interpreter)."""
    import random
    import warnings
    import numpy as np
    import matplotlib.pyplot as plt
    from mc.canon import canon, module_state, scribble
    warnings.simplefilter("ignore")
    recs = []
    from props.c20_ops import fixtures
    fixtures()          # long-lived objects exist before the first operation of the history
    for name in names:
        fac, seed = ops()[name]
        random.seed(0)
        fn, a, k = fac()
        sa, sk = _strip_mpl(a, k)
        before = canon([sa, sk])
        if seed is not None:
            np.random.seed(seed)
        try:
            res = fn(*a, **k)
        except Exception as e:   # noqa
            res = e
        after = canon([sa, sk])
        rec = {"op": name, "result": canon(res), "args_same": before == after}
        scribble(res)            # the result is the caller's: overwriting it must not influence any later call
        if before != after:
            rec["args_before"], rec["args_after"] = before, after
        plt.close("all")
        st = module_state()
        rec["state"] = {k2: _digest(v) for k2, v in st.items()}
        rec["state_digest"] = _digest(rec["state"])
        recs.append(rec)
    return recs


def run_history(names, timeout=120):
    """Fork a child from this (pristine) process, replay the history there, return the per-step records."""
    r, w = os.pipe()
    pid = os.fork()
    if pid == 0:
        try:
            os.close(r)
            try:
                out = ("ok", run_ops_here(names))
            except BaseException as e:  # harness problem inside the child
                import traceback
                out = ("error", traceback.format_exc())
            with os.fdopen(w, "wb") as f:
                pickle.dump(out, f)
        finally:
            os._exit(0)
    os.close(w)
    with os.fdopen(r, "rb") as f:
        data = f.read()
    os.waitpid(pid, 0)
    if not data:
        raise HarnessError("child running history %r died without an answer" % (names,))
    status, out = pickle.loads(data)
    if status != "ok":
        raise HarnessError("child running history %r failed:\n%s" % (names, out))
    return out


def pristine_state():
    from mc.canon import module_state
    st = module_state()
    d = {k: _digest(v) for k, v in st.items()}
    return d, _digest(d)


FRESH_SNIPPET = "import sys, json; sys.argv=['x']; import logging; logging.disable(logging.CRITICAL); from props import c20; print('@@' + json.dumps(c20.run_ops_here([%r])[0]['result']))"


def selfcheck(tier):
    """Reference results + conformance of the fork-from-pristine shortcut with truly fresh interpreters."""
    global S0
    names = list(ops())
    fresh = names if tier == "thorough" else ["kdtree", "similarity_clustermap-norm", "pc", "subsample", "labels_to_colors_hls", "standardize_dataframe", "raise-kdtree-ncpu0", "hierarchical_clustering"]
    procs = []
    env = dict(os.environ)
    pending = list(fresh)
    running = []
    results = {}

    def launch(n):
        return (n, subprocess.Popen(["/venv/bin/python", "-c", FRESH_SNIPPET % n], stdout=subprocess.PIPE, stderr=subprocess.DEVNULL, env=env, cwd=VERIF))
    while pending and len(running) < 16:
        running.append(launch(pending.pop(0)))
    S0 = pristine_state()
    import multiprocessing as mp
    from concurrent.futures import ProcessPoolExecutor
    with ProcessPoolExecutor(max_workers=12, mp_context=mp.get_context("fork")) as pool:
        first = list(pool.map(_bfs_task, [(n,) for n in names], chunksize=2))
        second = list(pool.map(_bfs_task, [(n,) for n in names], chunksize=2))
    for (h, recs) in first:
        R0[h[0]] = recs[0]
    # second pass: the reference itself must be reproducible (harness determinism)
    for (h, recs) in second:
        n = h[0]
        if recs[0]["result"] != R0[n]["result"]:
            raise HarnessError("operation %s is not reproducible from the pristine state: %s vs %s" % (n, json.dumps(recs[0]["result"])[:300], json.dumps(R0[n]["result"])[:300]))
    while running:
        n, p = running.pop(0)
        out = p.communicate()[0].decode()
        if pending:
            running.append(launch(pending.pop(0)))
        line = [l for l in out.splitlines() if l.startswith("@@")]
        if not line:
            raise HarnessError("fresh interpreter for %s produced no result" % n)
        results[n] = json.loads(line[0][2:])
    FRESH.update(results)


FRESH = {}


def spaces(tier):
    q = tier == "quick"
    names = list(ops())

    def gen_single():
        for n in names:
            yield ("hist", (n,))

    def gen_fresh():
        for n in sorted(FRESH):
            yield ("fresh", n)

    slow = {"similarity_clustermap", "similarity_clustermap-norm", "similarity_clustermap-cbar_kws"}

    def gen_pairs():
        # quick: pairs in which at least one operation is known to touch module-level state, mutable defaults, shared option
        # dictionaries or long-lived fixtures (thorough: all pairs)
        hot = {"kdtree", "kdtree-hamming", "kdtree-custom-ncpu2", "kdtree-maxreturns-ncpu2", "similarity_clustermap", "similarity_clustermap-norm",
               "hierarchical_clustering-kws", "labels_to_colors_hls", "nearest_neighbor_tcrdist-kwargs", "nearest_neighbor_tcrdist", "seqlogos-styled", "seqlogos",
               "fixture-Cdr3Levenshtein-cdist", "fixture-WeightedLevenshtein-cdist", "fixture-SymdelDB-lookup", "fixture-SymdelDB-lookup-custom-tight", "raise-fixture-Cdr3Levenshtein-pdist-beta-only", "fixture-LookupDB-lookup-k2", "fixture-LookupDB-lookup-k1-custom",
               "new-Cdr3Levenshtein-default-cdist", "powerlaw_mle_alpha-exact-bounds", "powerlaw_mle_alpha-exact", "load_pcDelta_background", "raise-kdtree-ncpu0",
               "raise-TcrMetric-non-table", "symdel-k2", "nearest_neighbor", "hash_based", "density_scatter-colormap-object"} & set(names)
        for a in names:
            for b in names:
                if q and a not in hot and b not in hot:
                    continue
                if q and (a.startswith("guarded-") or b.startswith("guarded-")):
                    continue        # write-recording tables: judged call by call (single operations, BFS); paired in the thorough tier
                if q and ((a in slow and b not in hot) or (b in slow and a not in hot)):
                    continue        # the 0.3 s clustermap operations are paired with the stateful operations only (quick)
                yield ("hist", (a, b))

    def gen_triples():
        st = [n for n in STATEFUL if n in names]
        if q:
            st = [n for n in ("kdtree", "kdtree-hamming", "kdtree-custom-ncpu2", "similarity_clustermap", "similarity_clustermap-norm", "hierarchical_clustering-kws") if n in names]
        for t in itertools.product(st, repeat=3):
            yield ("hist", t)

    def gen_bfs():
        yield ("bfs", 3 if q else 4)

    return [
        Space("single-operations", gen_single, "each of the %d operations alone from the pristine import state (argument purity, reproducibility)" % len(names)),
        Space("fresh-interpreter-conformance", gen_fresh, "%s operations re-run in a brand-new interpreter (subprocess) and compared with the fork-from-pristine reference" % ("all" if not q else "8 stateful/representative")),
        Space("all-ordered-pairs-no-dedup", gen_pairs, ("every ordered pair of the %d operations in which at least one touches module state / defaults / option dictionaries or raises (quick)" if q else "every ordered pair of the %d operations, all %d histories (thorough)" % (len(names), len(names) ** 2)) % ((len(names),) if q else ()) + ", executed for real without any state abstraction", shards=64),
        Space("triples-over-stateful-operations", gen_triples, "every ordered triple over the %d operations that touch module state, defaults or option dictionaries" % (6 if q else len(STATEFUL)), shards=32),
        Space("bfs-over-canonical-module-states", gen_bfs, "BFS from the import state: every operation applied in every reachable canonical module state until closure or depth 3 (quick) / 4 (thorough)", per_case=True),
    ]


def _judge(acc, hist, recs, state_before_first=None):
    """Invariants of one history; returns False at the first violation."""
    state_changed = False
    prev_digest = S0[1]
    raised_before = False
    for i, rec in enumerate(recs):
        n = rec["op"]
        seed = ops()[n][1]
        if seed is not None:
            acc.cls("randomised-call-seeded")
        is_raise = isinstance(rec["result"], list) and rec["result"][:1] == ["raised"]
        if is_raise:
            acc.cls("call-that-raises")
        if raised_before:
            acc.cls("history-after-raising-call")
        if any(isinstance(v, dict) for v in ops()[n][0]()[2].values()) if False else ("kws" in n or "kwargs" in n or "palette" in n):
            acc.cls("option-dict-argument")
        if n.startswith("inv-") and rec["result"] != ["list", "invariant", True]:
            acc.fail("purity/pyplot-current-axes-switched/%s" % n, ("hist", tuple(hist[:i + 1])), ["list", "invariant", True], rec["result"],
                     note="a plotting call with explicit axes changed pyplot's current figure / axes (or drew elsewhere): a later ax=None call draws somewhere else")
            return False
        if not rec["args_same"]:
            acc.fail("purity/argument-modified/%s" % n, ("hist", tuple(hist[:i + 1])), rec.get("args_before"), rec.get("args_after"))
            return False
        if rec["result"] != R0[n]["result"]:
            culprit = hist[i - 1] if i else "(nothing)"
            # name the state entries that differ from the pristine state at the time of the call
            acc.fail("history/result-differs-from-fresh-call/%s" % n, ("hist", tuple(hist[:i + 1])), R0[n]["result"], rec["result"],
                     note="after %r; module state entries changed before the call: %s" % (hist[:i], sorted(k for k in (recs[i - 1]["state"] if i else {}) if (recs[i - 1]["state"].get(k) != S0[0].get(k)))[:6]))
            return False
        if rec["state_digest"] != prev_digest:
            state_changed = True
        prev_digest = rec["state_digest"]
        raised_before = raised_before or is_raise
        acc.transitions += 1
        acc.ok((n, _digest(rec["result"])), nontrivial=state_changed and i > 0)
    if any(r["state_digest"] != S0[1] for r in recs[:-1]):
        acc.cls("module-state-changed-by-history")
    return True


def check_case(case, acc):
    kind = case[0]
    if kind == "hist":
        hist = case[1]
        recs = run_history(hist)
        _judge(acc, hist, recs)
    elif kind == "fresh":
        n = case[1]
        acc.cls("fresh-interpreter-conformance")
        acc.transitions += 1
        if FRESH[n] != R0[n]["result"]:
            raise HarnessError("fork-from-pristine reference differs from a fresh interpreter for %s: %s vs %s" % (n, json.dumps(R0[n]["result"])[:300], json.dumps(FRESH[n])[:300]))
        acc.ok(("fresh", n), nontrivial=True)
    elif kind == "bfs":
        _bfs(acc, case[1])
    else:
        raise HarnessError("unknown case %r" % (case,))


def _bfs_task(hist):
    return hist, run_history(hist)


def _bfs(acc, maxdepth):
    import multiprocessing as mp
    from concurrent.futures import ProcessPoolExecutor
    names = list(ops())
    seen = {S0[1]: ()}
    frontier = [()]
    depth = 0
    ntrans = 0
    ctx = mp.get_context("fork")
    with ProcessPoolExecutor(max_workers=8, mp_context=ctx) as pool:   # non-daemonic workers: histories start real Pools
        while frontier and depth < maxdepth:
            tasks = [h + (n,) for h in frontier for n in names]
            nxt = []
            for hist, recs in pool.map(_bfs_task, tasks, chunksize=4):
                ntrans += 1
                if not _judge(acc, hist, recs):
                    return
                d = recs[-1]["state_digest"]
                if d not in seen:
                    seen[d] = hist
                    nxt.append(hist)
                    acc.cls("bfs-state")
            frontier = nxt
            depth += 1
    acc.cls("bfs-state")
    acc.extra["bfs_states"] = len(seen)
    acc.extra["bfs_transitions"] = ntrans
    acc.extra["bfs_depth_completed"] = depth
    if frontier:
        acc.caps.append("bfs depth bound %d reached with %d unexpanded states" % (maxdepth, len(frontier)))
