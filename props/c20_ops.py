"""Operation alphabet for C20: one representative call of every public function / class method, with fixed small arguments.

Each operation is (name, factory) where factory() -> (callable, args, kwargs, seed or None).  Arguments are built fresh for
every execution; lists, arrays, Series, tables and option dictionaries are passed as such, so that argument purity is observable.
"""
import math

SEQS = ["CASSF", "CASTF", "CAF", "CASSF", "CASSLF", "AASSF"]
SEQS2 = ["CASF", "CASSF", "W"]


def _lev_double(a, b):
    from mc.refmodel import ref_lev
    return 2 * ref_lev(a, b)


def _lev_half(a, b):
    from rapidfuzz.distance.Levenshtein import distance
    return distance(a, b) / 2


def _df():
    import pandas as pd
    return pd.DataFrame({
        "TRAV": ["TRAV1-1*01", "TRAV1-1*01", "TRAV1-1*01", "TRAV12-2*01"], "CDR3A": ["CAVRDSNYQLIW", "CAVRDSNYKLIW", "CAVDSNYQLIW", "CAVRDSNYQLIW"],
        "TRBV": ["TRBV6-1*01", "TRBV6-1*01", "TRBV6-1*01", "TRBV20-1*01"], "CDR3B": ["CASSLGQAYEQYF", "CASSLGKAYEQYF", "CASSLGAYEQYF", "CASSLGQAYEQYF"],
        "group": ["g1", "g2", "g1", "g2"], "feat": ["x", "x", "y", "x"], "feat2": ["u", "v", "u", "u"]}, index=[4, 5, 6, 7])


def _explicit_axes(fn, *args, **kwargs):
    """Call a plotting function with explicitly given axes that are NOT pyplot's current axes and report whether pyplot's notion of
    the current figure / axes survived the call (a later call with ax=None draws there) and the other axes stayed empty."""
    import matplotlib.pyplot as plt
    fig1, ax1 = plt.subplots()
    fig2, ax2 = plt.subplots()
    fn(*args, ax=ax1, **kwargs)
    ok = (plt.gcf() is fig2) and (plt.gca() is ax2) and not (ax2.lines or ax2.collections or ax2.patches or ax2.texts)
    return ["invariant", bool(ok)]


def _guard(df):
    from mc.canon import guarded_frame
    return guarded_frame(df)


def _cm_df():
    import pandas as pd
    return pd.DataFrame({"cdr3a": ["CAV", "CAVR", "CAL", "CSV"], "cdr3b": ["CASS", "CAST", "CASS", "CSSS"], "meta": ["a", "b", "a", "b"]})


def _raw_df():
    import pandas as pd
    return pd.DataFrame({"TRAV": ["TCRAV1S1", None], "CDR3A": ["AVRDSNYQLI", "CAVRW"], "TRBV": ["bv13*1", "TRBV9*01"], "CDR3B": ["CASSF", None],
                         "TRBJ": ["bj1.5*1", "junk"], "Epitope": ["gilgfvftl", "x1"], "MHCA": ["HLA-A2", None], "other": [1, 2]}, index=[3, 9])


_FIX = {}


def fixtures():
    """Long-lived objects a user would build once and keep using: created at the start of every history (in the throw-away
    child), before any operation runs, so that later operations can be observed to disturb them."""
    if not _FIX:
        from pyrepseq.nn import SymdelDB, LookupDB
        from pyrepseq.metric import WeightedLevenshtein
        from pyrepseq.metric.tcr_metric import Cdr3Levenshtein, CdrLevenshtein
        _FIX["cdr3lev_a3"] = Cdr3Levenshtein(alpha_weight=3, insertion_weight=2)
        _FIX["cdrlev_b2"] = CdrLevenshtein(beta_weight=2, cdr2_weight=3)
        _FIX["wlev_123"] = WeightedLevenshtein(1, 2, 3)
        _FIX["symdeldb"] = SymdelDB(list(SEQS), 2)
        _FIX["lookupdb"] = LookupDB(list(SEQS))
    return _FIX


def ops():
    import numpy as np
    import pandas as pd
    import pyrepseq as prs
    import pyrepseq.plotting as P
    from pyrepseq.nn import SymdelDB, LookupDB
    from pyrepseq.metric import Levenshtein, WeightedLevenshtein
    from pyrepseq.metric.tcr_metric import CdrLevenshtein, AlphaCdr3Levenshtein, BetaCdrLevenshtein

    def fig_ax():
        import matplotlib.pyplot as plt
        fig, ax = plt.subplots()
        return ax
    O = []

    def op(name, fn, *a, seed=None, **k):
        O.append((name, lambda fn=fn, a=a, k=k: (fn, a, k), seed))

    def lazy(name, factory, seed=None):
        O.append((name, factory, seed))

    # ---- search
    lazy("nearest_neighbor", lambda: (prs.nearest_neighbor, (list(SEQS),), {}))
    lazy("nearest_neighbor-series-coo", lambda: (prs.nearest_neighbor, (pd.Series(SEQS, index=range(5, 11)), 2), {"output_type": "coo_matrix"}))
    lazy("symdel-k2", lambda: (prs.symdel, (np.array(SEQS), 2), {}))
    lazy("symdel-two-collections", lambda: (prs.symdel, (list(SEQS), 1), {"seqs2": list(SEQS2), "output_type": "ndarray"}))
    lazy("symdel-custom", lambda: (prs.symdel, (list(SEQS), 2), {"custom_distance": _lev_half, "max_custom_distance": 0.5}))
    lazy("hash_based", lambda: (prs.hash_based, (list(SEQS), 1), {}))
    lazy("hash_based-hamming", lambda: (prs.hash_based, (tuple(SEQS), 1), {"custom_distance": "hamming"}))
    lazy("kdtree", lambda: (prs.kdtree, (list(SEQS), 2), {}))
    lazy("kdtree-ndarray-compression", lambda: (prs.kdtree, (np.array(SEQS), 2), {"compression": 4, "output_type": "ndarray"}))
    lazy("kdtree-short-list", lambda: (prs.kdtree, (["CAF", "CAW"], 1), {}))
    lazy("kdtree-hamming", lambda: (prs.kdtree, (list(SEQS), 1), {"custom_distance": "hamming"}))
    lazy("kdtree-custom-ncpu2", lambda: (prs.kdtree, (list(SEQS), 2), {"custom_distance": _lev_half, "max_custom_distance": 0.5, "n_cpu": 2}))
    lazy("kdtree-maxreturns-ncpu2", lambda: (prs.kdtree, (pd.Series(SEQS), 2), {"max_returns": 1, "n_cpu": 2, "compression": 3}))
    lazy("SymdelDB-lookup", lambda: ((lambda ref, q: SymdelDB(ref, 1).lookup(q)), (list(SEQS), list(SEQS2)), {}))
    lazy("LookupDB-lookup", lambda: ((lambda ref, q: LookupDB(ref).lookup(q, max_edits=1)), (list(SEQS), list(SEQS2)), {}))
    lazy("nearest_neighbor_tcrdist", lambda: (prs.nearest_neighbor_tcrdist, (_df(),), {"chain": "both", "max_edits": 2, "max_tcrdist": 60}))
    lazy("nearest_neighbor_tcrdist-kwargs", lambda: (prs.nearest_neighbor_tcrdist, (_df(),), {"chain": "alpha", "max_tcrdist": 100, "tcrdist_kwargs": {"dist_weight": 1}, "edit_on_trimmed": False}))
    lazy("raise-nearest_neighbor-empty", lambda: (prs.nearest_neighbor, ([],), {}))
    lazy("raise-kdtree-ncpu0", lambda: (prs.kdtree, (list(SEQS),), {"n_cpu": 0}))
    lazy("raise-symdel-max_edits0", lambda: (prs.symdel, (list(SEQS), 0), {}))
    lazy("raise-kdtree-nonstring", lambda: (prs.kdtree, (["CAF", 3],), {}))
    # ---- statistics
    lazy("pc", lambda: (prs.pc, (list(SEQS),), {}))
    lazy("pc-table", lambda: (prs.pc, (_df()[["CDR3A", "feat"]],), {}))
    lazy("pc-two-samples", lambda: (prs.pc, (np.array(SEQS), np.array(SEQS2)), {}))
    lazy("pc_n", lambda: (prs.pc_n, ([3, 1, 2, 0],), {}))
    lazy("pc_joint", lambda: (prs.pc_joint, (_df(), ["feat", "feat2"]), {}))
    lazy("pc_grouped_cross", lambda: (prs.pc_grouped_cross, (_df(), "group", "feat"), {}))
    lazy("pc_conditional", lambda: (prs.pc_conditional, (_df(), ["group"], "feat"), {"group_weights": [1, 2]}))
    lazy("pc_conditional-ndarray-weights", lambda: (prs.pc_conditional, (_df(), "group", "feat"), {"group_weights": np.array([1.0, 3.0])}))
    lazy("pc_n-ndarray", lambda: (prs.pc_n, (np.array([3, 1, 2, 0]),), {}))
    lazy("varpc_n", lambda: (prs.varpc_n, (np.array([3, 1, 2, 2]),), {}))
    lazy("stdpc", lambda: (prs.stdpc, (list(SEQS),), {}))
    lazy("stdpc_joint", lambda: (prs.stdpc_joint, (_df(), ["feat", "feat2"]), {}))
    lazy("chao1", lambda: (prs.chao1, ([3, 2, 1],), {}))
    lazy("var_chao1", lambda: (prs.var_chao1, (np.array([3, 2, 1]),), {}))
    lazy("chao2", lambda: (prs.chao2, ([3, 2, 1], 4), {}))
    lazy("var_chao2", lambda: (prs.var_chao2, ([3, 2, 1], 4), {}))
    lazy("jaccard_index", lambda: (prs.jaccard_index, (pd.Series(["a", None, "b"]), ["b", "c"]), {}))
    lazy("overlap", lambda: (prs.overlap, (["a", None, "b", "b"], {"b", "c"}), {}))
    lazy("overlap_coefficient", lambda: (prs.overlap_coefficient, (["a", "b"], pd.Series(["b", "c", None])), {}))
    lazy("subsample", lambda: (prs.subsample, ([3, 0, 2, 4], 4), {}), seed=7)
    lazy("subsample-ndarray", lambda: (prs.subsample, (np.array([3, 0, 2, 4]), 9), {}), seed=7)
    lazy("chao1-ndarray", lambda: (prs.chao1, (np.array([3, 0, 1]),), {}))
    lazy("powerlaw_sample", lambda: (prs.powerlaw_sample, (5, 2.0, 2.5), {}), seed=11)
    lazy("powerlaw_mle_alpha-exact", lambda: (prs.powerlaw_mle_alpha, ([1, 1, 2, 3, 7, 1],), {"method": "exact"}))
    lazy("powerlaw_mle_alpha-cc", lambda: (prs.powerlaw_mle_alpha, (np.array([1, 1, 2, 3, 7, 1]),), {"method": "continuitycorrection"}))
    # ---- distance
    lazy("pdist", lambda: (prs.pdist, (list(SEQS),), {}))
    lazy("cdist", lambda: (prs.cdist, (list(SEQS), list(SEQS2)), {"dtype": np.int32}))
    lazy("downsample", lambda: (prs.downsample, (list(SEQS), 3), {}), seed=3)
    lazy("downsample-table", lambda: (prs.downsample, (_df(), 2), {}), seed=5)
    lazy("pcDelta", lambda: (prs.pcDelta, (list(SEQS),), {"bins": [0, 1, 2, 3, 4]}))
    lazy("pcDelta-table-pseudocount", lambda: (prs.pcDelta, (_df(), _df().iloc[:2]), {"pseudocount": 0.5, "bins": np.arange(0, 6)}))
    lazy("pcDelta-maxseqs", lambda: (prs.pcDelta, (list(SEQS),), {"maxseqs": 4, "normalize": False}), seed=13)
    lazy("pcDelta-legacy-tuple", lambda: (prs.pcDelta, ((["CAV", "CAL"], ["CASS", "CAST"]),), {"bins": [0, 1, 2, 3]}))
    lazy("pcDelta_grouped", lambda: (prs.pcDelta_grouped, (_df(), "group", "CDR3B"), {"bins": [0, 1, 2, 3]}))
    lazy("pcDelta_grouped_cross", lambda: (prs.pcDelta_grouped_cross, (_df(), "group", "CDR3B"), {"bins": 0}))
    lazy("load_pcDelta_background", lambda: (prs.load_pcDelta_background, (), {}))
    lazy("levenshtein_neighbors", lambda: ((lambda x: sorted(prs.levenshtein_neighbors(x, "AC"))), ("AAC",), {}))
    lazy("hamming_neighbors", lambda: ((lambda x, p: sorted(prs.hamming_neighbors(x, variable_positions=p))), ("AAC", [0, 2]), {}))
    lazy("next_nearest_neighbors", lambda: ((lambda x: sorted(prs.next_nearest_neighbors(x, lambda y: prs.hamming_neighbors(y, "AC")))), ("AAC",), {}))
    lazy("find_neighbor_pairs", lambda: (prs.find_neighbor_pairs, (list(SEQS),), {}))
    lazy("find_neighbor_pairs-set", lambda: (prs.find_neighbor_pairs, (set(SEQS),), {}))
    lazy("calculate_neighbor_numbers-set-reference", lambda: (prs.calculate_neighbor_numbers, (list(SEQS),), {"reference": set(SEQS2) | {"CASSF"}}))
    lazy("find_neighbor_pairs_index", lambda: (prs.find_neighbor_pairs_index, (list(dict.fromkeys(SEQS)),), {}))
    lazy("calculate_neighbor_numbers", lambda: (prs.calculate_neighbor_numbers, (list(SEQS),), {}))
    lazy("isdist1", lambda: (prs.isdist1, ("CASSW", set(SEQS)), {}))
    lazy("nndist_hamming", lambda: (prs.nndist_hamming, ("CAWWF", set(SEQS)), {}))
    lazy("hierarchical_clustering", lambda: (prs.hierarchical_clustering, (list(SEQS),), {}))
    lazy("hierarchical_clustering-kws", lambda: (prs.hierarchical_clustering, (_df(),), {"linkage_kws": {"method": "single"}, "cluster_kws": {"t": 1, "criterion": "distance"}}))
    # ---- metrics
    lazy("Levenshtein-cdist", lambda: (Levenshtein().calc_cdist_matrix, (list(SEQS), list(SEQS2)), {}))
    lazy("WeightedLevenshtein-pdist", lambda: (WeightedLevenshtein(1, 2, 3).calc_pdist_vector, (list(SEQS),), {}))
    lazy("CdrLevenshtein-cdist", lambda: (CdrLevenshtein(cdr1_weight=2).calc_cdist_matrix, (_df(), _df().iloc[::-1]), {}))
    lazy("BetaCdrLevenshtein-pdist", lambda: (BetaCdrLevenshtein().calc_pdist_vector, (_df(),), {}))
    lazy("raise-TcrMetric-non-table", lambda: (AlphaCdr3Levenshtein().calc_cdist_matrix, (list(SEQS), list(SEQS)), {}))
    # ---- clustering / entropy
    lazy("hamming_neighbors-ndarray-positions", lambda: ((lambda x, p: sorted(prs.hamming_neighbors(x, "AC", variable_positions=p))), ("AAC", np.array([1, 2])), {}))
    lazy("graph_clustering-cc", lambda: (prs.graph_clustering, ([(0, 1, 1), (1, 0, 1), (3, 4, 2), (4, 3, 2)], list(SEQS)), {}))
    lazy("graph_clustering-leiden", lambda: (prs.graph_clustering, (np.array([(0, 1, 1), (1, 0, 1), (1, 2, 1), (2, 1, 1)]), pd.Series(SEQS)), {"clustering": "leiden", "objective_function": "modularity"}))
    lazy("renyi2_entropy", lambda: (prs.renyi2_entropy, (_df(), "feat"), {}))
    lazy("renyi2_entropy-conditional", lambda: (prs.renyi2_entropy, (_df(), ["feat", "feat2"]), {"by": "group", "base": 10.0}))
    lazy("renyi2_entropy-conditional-ndarray-weights", lambda: (prs.renyi2_entropy, (_df(), "feat"), {"by": ["group"], "group_weights": np.array([2, 1])}))
    lazy("stdrenyi2_entropy", lambda: (prs.stdrenyi2_entropy, (_df(), "feat"), {}))
    # ---- io / util
    lazy("standardize_dataframe", lambda: (prs.standardize_dataframe, (_raw_df(),), {"suppress_warnings": True}))
    lazy("standardize_dataframe-mapper", lambda: (prs.standardize_dataframe, (_raw_df().rename(columns={"TRBJ": "j"}),), {"col_mapper": {"j": "TRBJ"}, "tcr_precision": "allele", "suppress_warnings": True}))
    lazy("raise-standardize_dataframe-none", lambda: (prs.standardize_dataframe, (None,), {}))
    lazy("isvalidaa", lambda: (prs.isvalidaa, ("CASSX",), {}))
    lazy("isvalidcdr3", lambda: (prs.isvalidcdr3, (["C", "A", "F"],), {}))
    lazy("multimerge", lambda: (prs.multimerge, ([pd.DataFrame({"k": [1, 2], "v": [3, 4]}), pd.DataFrame({"k": [2, 3], "v": [5, 6]})], "k", ["a", "b"]), {}))
    lazy("seqs_to_regex", lambda: (prs.seqs_to_regex, (["CAS", "C-T", "CAT"],), {"align": False}))
    lazy("seqs_to_consensus", lambda: (prs.seqs_to_consensus, (["CAS", "CAT", "CWT"],), {"align": False}))
    lazy("ensure_numpy", lambda: (prs.ensure_numpy, (pd.Series(SEQS),), {}))
    # ---- long-lived objects (built before the history starts, see fixtures())
    lazy("fixture-Cdr3Levenshtein-cdist", lambda: (fixtures()["cdr3lev_a3"].calc_cdist_matrix, (_df(), _df().iloc[:2]), {}))
    lazy("fixture-CdrLevenshtein-pdist", lambda: (fixtures()["cdrlev_b2"].calc_pdist_vector, (_df(),), {}))
    lazy("fixture-WeightedLevenshtein-cdist", lambda: (fixtures()["wlev_123"].calc_cdist_matrix, (list(SEQS), list(SEQS2)), {}))
    lazy("fixture-SymdelDB-lookup", lambda: (fixtures()["symdeldb"].lookup, (list(SEQS2),), {}))
    lazy("fixture-SymdelDB-lookup-hamming", lambda: (fixtures()["symdeldb"].lookup, (list(SEQS),), {"custom_distance": "hamming"}))
    # a long-lived metric object on which a call fails half-way (paired-chain metric, beta-only table), then is used normally again
    lazy("raise-fixture-Cdr3Levenshtein-pdist-beta-only", lambda: (fixtures()["cdr3lev_a3"].calc_pdist_vector, (_df()[["TRBV", "CDR3B"]],), {}))
    lazy("raise-fixture-Cdr3Levenshtein-pcDelta-beta-only", lambda: (prs.pcDelta, (_df()[["TRBV", "CDR3B"]],), {"metric": fixtures()["cdr3lev_a3"], "bins": [0, 1, 2, 3]}))
    lazy("raise-fixture-CdrLevenshtein-cdist-alpha-only", lambda: (fixtures()["cdrlev_b2"].calc_cdist_matrix, (_df()[["TRAV", "CDR3A"]], _df()), {}))
    # the caller's table handed over as an object that records every write to itself, also writes undone before the call returns
    lazy("guarded-pc_grouped_cross-list-on", lambda: (prs.pc_grouped_cross, (_guard(_df()), "group", ["feat", "feat2"]), {}))
    lazy("guarded-pc_conditional", lambda: (prs.pc_conditional, (_guard(_df()), ["group"], ["feat", "feat2"]), {"group_weights": [1, 2]}))
    lazy("guarded-pc_joint", lambda: (prs.pc_joint, (_guard(_df()), ["feat", "feat2"], _guard(_df().iloc[:3])), {}))
    lazy("guarded-pcDelta_grouped_cross", lambda: (prs.pcDelta_grouped_cross, (_guard(_df()), "group", "CDR3B"), {"bins": [0, 1, 2, 3], "condensed": True}))
    lazy("guarded-renyi2_entropy", lambda: (prs.renyi2_entropy, (_guard(_df()), "feat"), {"by": "group", "base": 2.0}))
    lazy("guarded-pcDelta-table", lambda: (prs.pcDelta, (_guard(_df()), _guard(_df().iloc[1:])), {"bins": [0, 1, 2, 3]}))
    lazy("guarded-hierarchical_clustering-table", lambda: (prs.hierarchical_clustering, (_guard(_df()),), {}))
    lazy("guarded-standardize_dataframe", lambda: (prs.standardize_dataframe, (_guard(_raw_df()),), {"suppress_warnings": True}))
    lazy("guarded-multimerge", lambda: (prs.multimerge, ([_guard(pd.DataFrame({"k": [1, 2], "v": [3, 4]})), _guard(pd.DataFrame({"k": [2, 3], "v": [5, 6]}))], "k", ["a", "b"]), {}))
    lazy("guarded-CdrLevenshtein-cdist", lambda: (CdrLevenshtein().calc_cdist_matrix, (_guard(_df()), _guard(_df().iloc[::-1])), {}))
    lazy("guarded-similarity_clustermap", lambda: (P.similarity_clustermap, (_guard(_cm_df()),), {}), seed=29)
    # one index object asked with a distance function and a tight / an unlimited radius, then (in the histories) asked plainly again
    lazy("fixture-SymdelDB-lookup-custom-tight", lambda: (fixtures()["symdeldb"].lookup, (list(SEQS2),), {"custom_distance": _lev_half, "max_custom_distance": 0.5}))
    lazy("fixture-SymdelDB-lookup-custom-wide", lambda: (fixtures()["symdeldb"].lookup, (list(SEQS2),), {"custom_distance": _lev_double}))
    lazy("fixture-LookupDB-lookup-k2", lambda: (fixtures()["lookupdb"].lookup, (list(SEQS2),), {"max_edits": 2}))
    lazy("fixture-LookupDB-lookup-k1-custom", lambda: (fixtures()["lookupdb"].lookup, (list(SEQS2),), {"max_edits": 1, "custom_distance": _lev_half}))
    lazy("new-Cdr3Levenshtein-default-cdist", lambda: (__import__("pyrepseq").metric.tcr_metric.Cdr3Levenshtein().calc_cdist_matrix, (_df(), _df()), {}))
    lazy("new-WeightedLevenshtein-312-pdist", lambda: (WeightedLevenshtein(3, 1, 2).calc_pdist_vector, (list(SEQS),), {}))
    lazy("multimerge-index-how-right-named-indexes", lambda: (prs.multimerge, ([pd.DataFrame({"v": [3, 4]}, index=pd.Index([1, 2], name="clone")), pd.DataFrame({"w": [5, 6]}, index=pd.Index([2, 3], name="id"))], "index"), {"how": "right"}))
    lazy("powerlaw_mle_alpha-exact-bounds-from-1", lambda: (prs.powerlaw_mle_alpha, (np.array([1, 1, 2, 3, 1, 7, 2]),), {"bounds": [1.0, 4.0]}))
    lazy("multimerge-index-suffixes", lambda: (prs.multimerge, ([pd.DataFrame({"v": [3, 4]}, index=[1, 2]), pd.DataFrame({"v": [5, 6]}, index=[2, 3])], "index", ["a", "b"]), {"how": "inner"}))
    lazy("powerlaw_mle_alpha-exact-bounds", lambda: (prs.powerlaw_mle_alpha, ([1, 1, 2, 3, 7, 1],), {"method": "exact", "bounds": [1.5, 2.0]}))
    lazy("hierarchical_clustering-empty-kws", lambda: (prs.hierarchical_clustering, (list(SEQS),), {"linkage_kws": {}, "cluster_kws": {"t": 2}}))
    # ---- plotting
    lazy("rankfrequency", lambda: (P.rankfrequency, (np.array([3.0, 1.0, float("nan"), 2.0]),), {"ax": fig_ax(), "normalize_y": True}))
    lazy("rankfrequency-raw-float-array", lambda: (P.rankfrequency, (np.array([3.0, 1.0, 7.0, 2.0]),), {"ax": fig_ax(), "normalize_x": False}))
    # plotting functions given their axes explicitly leave pyplot's current figure / axes alone
    lazy("inv-density_scatter-cbar-explicit-axes", lambda: (_explicit_axes, (P.density_scatter, [0, 1, 0, 1, 1], [0, 1, 0, 0, 1]), {"discrete": True, "cbar": True}))
    lazy("inv-density_scatter-explicit-axes", lambda: (_explicit_axes, (P.density_scatter, np.linspace(0, 1, 40), (np.linspace(0, 1, 40) * 3) % 1), {"bins": 5}))
    lazy("inv-rankfrequency-explicit-axes", lambda: (_explicit_axes, (P.rankfrequency, [5, 3, 3, 1]), {}))
    lazy("inv-seqlogos-explicit-axes", lambda: (_explicit_axes, (P.seqlogos, ["CAS", "CAT", "CSS"]), {}))
    lazy("density_scatter-float-arrays", lambda: (P.density_scatter, (np.array([0.5, 1.5, 0.5]), np.array([2.0, 1.0, 2.0])), {"ax": fig_ax(), "discrete": True, "sort": True}))
    lazy("graph_clustering-dbscan-float-table", lambda: (prs.graph_clustering, (np.array([(0, 1, 0.0), (1, 0, 0.0), (1, 2, 0.5), (2, 1, 0.5), (3, 4, 1.0), (4, 3, 1.0)]), list(SEQS)[:5]), {"clustering": "DBSCAN"}))
    lazy("graph_clustering-fastgreedy-ndarray", lambda: (prs.graph_clustering, (np.array([[1, 0, 1], [2, 1, 1], [4, 3, 2]]), list(SEQS)), {"clustering": "fastgreedy"}))
    lazy("labels_to_colors_hls", lambda: (P.labels_to_colors_hls, (["a", "b", "a", "c"],), {"min_count": 2}), seed=17)
    lazy("labels_to_colors_hls-palette", lambda: (P.labels_to_colors_hls, ([1, 2, 1],), {"palette_kws": {"l": 0.4, "s": 0.7}}), seed=19)
    lazy("labels_to_colors_tableau", lambda: (P.labels_to_colors_tableau, (np.array(["a", "b", "a", "c"]),), {}), seed=23)
    lazy("similarity_clustermap", lambda: (P.similarity_clustermap, (_cm_df(),), {}), seed=29)
    lazy("similarity_clustermap-norm", lambda: (P.similarity_clustermap, (_cm_df(),), {"norm": __import__("matplotlib").colors.Normalize(0, 5), "alpha_column": None}), seed=29)
    lazy("similarity_clustermap-cbar_kws", lambda: (P.similarity_clustermap, (_cm_df(),), {"cbar_kws": {"label": "d", "orientation": "horizontal"}, "meta_columns": ["meta"], "bounds": np.arange(0, 5, 1)}), seed=29)
    lazy("similarity_clustermap-short-mapper-list", lambda: (P.similarity_clustermap, (_cm_df(),), {"meta_columns": ["meta"], "meta_to_colors": [P.labels_to_colors_tableau]}), seed=29)
    lazy("density_scatter-colormap-object", lambda: (P.density_scatter, (np.linspace(0, 1, 40), (np.linspace(0, 1, 40) * 7) % 1), {"ax": fig_ax(), "bins": 5, "cmap": __import__("matplotlib").pyplot.cm.magma}))
    lazy("seqlogos", lambda: (P.seqlogos, (["CAS", "CAT", "CWT"],), {"ax": fig_ax()}))
    lazy("seqlogos-styled", lambda: (P.seqlogos, (["CAS", "CAT", "CWT"],), {"ax": fig_ax(), "color_scheme": "hydrophobicity", "stack_order": "small_on_top"}))
    lazy("seqlogos_vj-styled", lambda: (P.seqlogos_vj, (pd.DataFrame({"c": ["CAS", "CAT"], "v": ["TRBV1", "TRBV2"], "j": ["TRBJ1", "TRBJ1"]}), "c", "v", "j"), {"color_scheme": "charge"}))
    lazy("density_scatter-discrete", lambda: (P.density_scatter, ([0, 1, 0, 1, 1], [0, 1, 0, 0, 1]), {"ax": fig_ax(), "discrete": True}))
    lazy("density_scatter-binned", lambda: (P.density_scatter, (np.linspace(0, 1, 40), (np.linspace(0, 1, 40) * 3) % 1), {"ax": fig_ax(), "bins": 5}))
    lazy("label_axes", lambda: (P.label_axes, ([fig_ax(), fig_ax()],), {"labels": "xy"}))
    return O
