"""C18 - input cleaning is total, cell-local and never alters the caller's table."""
import itertools
import math
from mc.core import Space, HarnessError, raised
from mc import enum as E

ID = "C18"
RULE = ("isvalidaa / isvalidcdr3 on every string up to length 4 over {C,A,F,W,x,' ',newline,A-umlaut} and an object zoo; standardize_dataframe on one-row tables "
        "over each column / each chain's four columns x the full option product (thorough) or option star (quick), multi-row tables with "
        "shifted index and extra columns: input unchanged, shape/index/order preserved, every output cell equals the single-cell tidytcells "
        "call with the same options; multimerge on 2-4 tables with partially overlapping keys against a semantic join; "
        "non-trivial = a cell that standardisation changes / a key present in only some tables")
ASSUMPTIONS = ["tidytcells is the oracle for what a cell standardises to (property wording); what is decided is option routing, cell locality and input preservation",
               "without suffixes the value columns of the tables have distinct names (pandas would otherwise add its own _x/_y suffixes)"]
REQUIRED_CLASSES = {"all": ["rotating-col_mapper", "object-dtype-table", "df_old-keyword", "same-text-in-tr-and-mhc-column", "empty-string", "non-string-object", "missing-cell", "junk-cell", "option-sensitive-cell", "col_mapper", "shifted-index", "extra-column", "merge-on-column", "merge-suffixes", "merge-partial-keys", "merge-repeated-keys", "merge-identical-sorted-key-sequences", "merge-index-named-like-key-column", "merge-table-without-rows", "table-without-rows", "options-by-position", "merge-data-column-called-index"]}
MIN_OUTCOMES = 10
AA = set("ACDEFGHIKLMNPQRSTVWY")

CELLS = {
    "TRAV": ("TRAV1-1*01", "TCRAV1S1", "TRAV11*01", "TRAV19*07", "unknown", None),
    "CDR3A": ("CAVRDSNYQLIW", "AVRDSNYQLI", "CAVRDSNYQLIC", "cavr1", None),
    "TRAJ": ("TRAJ1*01", "aj2", "TRAJ3*01", "HLA-A2", "junk", None),
    "TRBV": ("TRBV6-1*01", "bv13*1", "TRBV1*01", "TRBV13*09", None),
    "CDR3B": ("CASSF", "ass", "CC", "x1", None),
    "TRBJ": ("TRBJ2-4*01", "bj1.5*1", "B2M", "junk", None),
    "Epitope": ("GILGFVFTL", "gilgfvftl", "not-an-epitope", None),
    "MHCA": ("HLA-A*02:01", "HLA-A2", "TRAJ3*01", "junk", None),
    "MHCB": ("B2M", "DRA", "TRBJ2-4*01", "junk", None),
}
COLS = tuple(CELLS)
OPT_DEFAULT = dict(standardize=True, species="HomoSapiens", tcr_precision="gene", mhc_precision="gene", tcr_enforce_functional=True,
                   strict_cdr3_standardization=False, mapper=False)
OPT_SPACE = dict(standardize=(True, False), species=("HomoSapiens", "MusMusculus"), tcr_precision=("gene", "allele"),
                 mhc_precision=("gene", "protein", "allele"), tcr_enforce_functional=(True, False),
                 strict_cdr3_standardization=(False, True), mapper=(False, True))
# mapper=True renames fresh source names; mapper="swap" stores every column under the *standard name of the next column*
# (a simultaneous rename that swaps / rotates standard names); object=True gives object-dtype columns (None stays None)


def opt_product():
    keys = list(OPT_SPACE)
    for vals in itertools.product(*[OPT_SPACE[k] for k in keys]):
        yield tuple(zip(keys, vals))


def opt_star():
    yield tuple(OPT_DEFAULT.items())
    for k, vals in OPT_SPACE.items():
        for v in vals:
            if v != OPT_DEFAULT[k]:
                o = dict(OPT_DEFAULT)
                o[k] = v
                yield tuple(o.items())


def spaces(tier):
    q = tier == "quick"
    opts = list(opt_star()) if q else list(opt_product())

    def gen_pred():
        for s in E.universe("CAFWx \n\u00c4", 4):
            yield ("pred", s)
        for i in range(len(zoo())):
            yield ("zoo", i)

    def gen_single():
        for col in COLS:
            for v in range(len(CELLS[col])):
                for o in opt_product():
                    yield ("rows", ((col,), ((v,),)), o)

    def gen_chain():
        for cols in (("TRAV", "CDR3A", "TRAJ", "MHCA"), ("TRBV", "CDR3B", "TRBJ", "MHCB"), ("Epitope", "MHCA", "MHCB", "CDR3B")):
            for row in itertools.product(*[range(len(CELLS[c])) for c in cols]):
                for o in opts:
                    yield ("rows", (cols, (row,)), o)
        for v in range(4):
            for o in opt_product():
                yield ("rows", (COLS, (tuple(min(v, len(CELLS[c]) - 1) for c in COLS),)), o)

    def gen_multi():
        cols = ("TRAV", "CDR3A", "TRBJ", "MHCA")
        rows = list(itertools.product(*[range(0, len(CELLS[c]), 2) for c in cols]))
        for n in (2,) if q else (2, 3):
            for ci, tab in enumerate(itertools.product(rows, repeat=n)):
                if n == 3 and ci % 16 != 5:
                    continue
                for o in opt_star():
                    yield ("rows", (cols, tab), o)
        # tables without any row (an empty selection): still renamed, still zero rows
        for cols0 in (("TRAV",), ("TRAV", "CDR3A"), cols):
            for o in opt_star():
                yield ("rows", (cols0, ()), o)

    def gen_merge():
        keysets = [ks for ks in E.subsets((1, 2, 3, 4), 1)]
        pick = keysets[::2] if q else keysets
        for nt in (2, 3, 4):
            for ci, ks in enumerate(itertools.product(pick if nt < 4 else keysets[::3], repeat=nt)):
                if nt == 3 and ci % (3 if q else 5) != 1:
                    continue
                if nt == 4 and ci % (11 if q else 3) != 1:
                    continue
                yield ("merge", ks)
        # tables in which a key occurs more than once (a relational join pairs every row with every row of that key)
        L = ((1, 1, 2), (1, 2, 2), (2, 1, 1), (1, 1), (1, 3), (1, 1, 2, 2), ())       # () = a table without rows
        for nt in (2, 3):
            for ks in itertools.product(L, repeat=nt):
                if nt == 3 and sum(map(sum, ks)) % 3 != 1:
                    continue
                yield ("mergedup", ks)

    return [
        Space("predicates", gen_pred, "isvalidaa/isvalidcdr3 on all 4681 strings of U({C,A,F,W,x,' ',newline,A-umlaut},4) and an object zoo of %d objects" % len(zoo())),
        Space("single-cell-tables-x-option-product", gen_single, "one-row, one-column tables for each of the 9 standard columns x every cell value x all 192 option combinations", shards=32),
        Space("chain-rows-x-options", gen_chain, "one-row tables over each chain's four columns (all cell combinations) x option star (quick) / full 192-option product (thorough); all-nine-columns rows x 192 options", shards=64),
        Space("multi-row-tables-x-option-star", gen_multi, "2-row (thorough: + thinned 3-row) tables over 4 columns x option star; index shifted, extra column", shards=32),
        Space("multimerge", gen_merge, "2..4 tables with key sets from the non-empty subsets of {1,2,3,4} (thinned by a fixed stride) x on in {index, column} x suffixes x how in {default (outer), inner, left}; tables with repeated keys (2..3 tables over 6 key lists; rows compared as a multiset with the relational join), also with an unrelated index named like the key column"),
    ]


def zoo():
    import numpy as np
    import pandas as pd
    return [None, float("nan"), pd.NA, 0, 1, -3, 2.5, True, False, b"", b"CAF", [], ["C", "A", "F"], ["CA", "F"], (), ("C", "F"), {}, {"C": 1, "F": 2}, set(), {"C"},
            frozenset(), frozenset("CF"), (c for c in "CAF"), np.array([]), np.array(["C", "A", "F"]), np.array([["C"], ["F"]]), pd.Series([], dtype=object), pd.Series(["C", "F"]),
            pd.Series(["C", "F"], index=[3, 4]), [["C"], ["F"]], object(), complex(1, 2), np.float64(1.5), np.int64(3), np.nan, range(3), "", "C", "CF", bytearray(b"CF"), pd.NaT, [None], ["C", None]]


def isbool(x):
    import numpy as np
    return isinstance(x, (bool, np.bool_))


def check_case(case, acc):
    import numpy as np
    import pandas as pd
    import pyrepseq
    kind = case[0]
    if kind == "pred":
        s = case[1]
        if s == "":
            acc.cls("empty-string")
        e_aa = all(c in AA for c in s)
        e_cdr3 = e_aa and len(s) > 0 and s[0] == "C" and s[-1] in "FWC"
        for fn, e in (("isvalidaa", e_aa), ("isvalidcdr3", e_cdr3)):
            r = acc.call(getattr(pyrepseq, fn), s)
            if raised(r) or not isbool(r) or bool(r) != e:
                acc.fail("%s/string/%s" % (fn, "raised-" + r.type if raised(r) else "value"), case, e, r)
            else:
                acc.ok((fn, e), nontrivial=e)
    elif kind == "zoo":
        obj = zoo()[case[1]]
        acc.cls("non-string-object")
        desc = repr(obj)[:60]
        for fn in ("isvalidaa", "isvalidcdr3"):
            if hasattr(obj, "__next__"):
                obj = zoo()[case[1]]
            r = acc.call(getattr(pyrepseq, fn), obj)
            must_false = obj is None or isinstance(obj, (int, float, complex, np.number)) or obj is pd.NA or obj is pd.NaT
            if raised(r) or not isbool(r) or (must_false and bool(r)) or (isinstance(obj, str) and fn == "isvalidcdr3" and bool(r) != (len(obj) > 0 and obj[0] == "C" and obj[-1] in "FWC")):
                acc.fail("%s/object/%s" % (fn, "raised-" + r.type if raised(r) else ("not-bool" if not isbool(r) else "value")), case, "a bool" + (" (False)" if must_false else ""), r, note=desc)
            else:
                acc.ok((fn, type(obj).__name__, bool(r)))
    elif kind == "rows":
        _check_rows(acc, case)
    elif kind == "merge":
        _check_merge(acc, case)
    elif kind == "mergedup":
        _check_merge_dup(acc, case)
    else:
        raise HarnessError("unknown case %r" % (case,))


def cell_oracle(col, x, o):
    import tidytcells as tt
    if x is None or not o["standardize"]:
        return x
    if col in ("CDR3A", "CDR3B"):
        return tt.junction.standardize(seq=x, strict=o["strict_cdr3_standardization"], suppress_warnings=True)
    if col in ("TRAV", "TRAJ", "TRBV", "TRBJ"):
        return tt.tr.standardize(gene=x, species=o["species"], enforce_functional=o["tcr_enforce_functional"], precision=o["tcr_precision"], suppress_warnings=True)
    if col in ("MHCA", "MHCB"):
        return tt.mh.standardize(gene=x, species=o["species"], precision=o["mhc_precision"], suppress_warnings=True)
    if col == "Epitope":
        return tt.aa.standardize(seq=x, on_fail="keep", suppress_warnings=True)
    raise HarnessError(col)


def _same_cell(a, b):
    import pandas as pd
    na, nb = (a is None or a is pd.NA or (isinstance(a, float) and a != a)), (b is None or b is pd.NA or (isinstance(b, float) and b != b))
    if na or nb:
        return na and nb
    return a == b


def _check_rows(acc, case):
    import pandas as pd
    import pyrepseq
    _, (cols, tab), ot = case
    o = dict(ot)
    n = len(tab)
    multi = n > 1
    values = {c: [CELLS[c][row[i]] for row in tab] for i, c in enumerate(cols)}
    variant = (n + len(cols) + sum(len(str(v)) for v in o.values()) + sum(sum(r_) for r_ in tab)) % 4
    rotate = bool(o["mapper"]) and len(cols) >= 2 and variant in (1, 3)
    if rotate:
        acc.cls("rotating-col_mapper")
        src_names = {c: cols[(i + 1) % len(cols)] for i, c in enumerate(cols)}      # column c is stored under the next standard name
    else:
        src_names = {c: ("src_" + c if o["mapper"] else c) for c in cols}
    data = {src_names[c]: values[c] for c in cols}
    if multi or len(cols) > 4:
        data["extra"] = list(range(n))
        data["Extra text"] = ["tRaV1-1"] * n
        # extra columns whose labels merely begin like / contain a standard column name
        data["TRBV_as_submitted"] = ["tcrbv6s1*01"] * n
        data["TRAJ quality"] = ["TRAJ12*01 (low)"] * n
        data["my CDR3A"] = ["cassf"] * n
        data["MHCA_raw"] = ["HLA-A2"] * n
        acc.cls("extra-column")
    df = pd.DataFrame(data)
    if variant in (2, 3):
        df = df.astype(object)          # object-dtype columns mixing strings and None
        acc.cls("object-dtype-table")
    if multi:
        df.index = range(20, 20 + n)
        acc.cls("shifted-index")
    if n == 0:
        acc.cls("table-without-rows")
    snapshot = df.copy(deep=True)
    kw = {k: v for k, v in o.items() if k != "mapper"}
    if o["mapper"]:
        kw["col_mapper"] = {src_names[c]: c for c in cols}
        acc.cls("col_mapper")
    via_old = (n + len(cols) + sum(len(str(v)) for v in o.values())) % 3 == 0     # a third of the cases go through the deprecated df_old= keyword
    if via_old:
        acc.cls("df_old-keyword")
        r = acc.call(pyrepseq.standardize_dataframe, df_old=df, suppress_warnings=True, **kw)
    else:
        r = acc.call(pyrepseq.standardize_dataframe, df, suppress_warnings=True, **kw)
    if not via_old and not raised(r) and o != OPT_DEFAULT and (n + len(cols)) % 2 == 0:
        # the same options handed over by position, in the documented order of the signature
        import inspect
        names = [p_ for p_ in inspect.signature(pyrepseq.standardize_dataframe).parameters]
        doc_order = ["df", "col_mapper", "standardize", "species", "tcr_enforce_functional", "tcr_precision", "mhc_precision", "strict_cdr3_standardization", "suppress_warnings"]
        if names[:len(doc_order)] == doc_order or set(doc_order) <= set(names):
            full = dict(col_mapper=None, standardize=True, species="HomoSapiens", tcr_enforce_functional=True, tcr_precision="gene", mhc_precision="gene", strict_cdr3_standardization=False, suppress_warnings=True)
            full.update(kw)
            rp = acc.call(pyrepseq.standardize_dataframe, df, *[full[k_] for k_ in doc_order[1:]])
            acc.cls("options-by-position")
            if raised(rp) or not rp.equals(r):
                acc.fail("standardize_dataframe/options-by-position-differ-from-keywords", case, r.to_dict("list"), rp if raised(rp) else rp.to_dict("list"))
                return
    what = "multi-row" if multi else ("one-cell" if len(cols) == 1 else "one-row")
    if raised(r):
        acc.fail("standardize_dataframe/%s/raised-%s" % (what, r.type), case, "a table", r)
        return
    if not df.equals(snapshot) or list(df.columns) != list(snapshot.columns) or list(df.index) != list(snapshot.index):
        acc.fail("standardize_dataframe/input-modified", case, snapshot.to_dict("list"), df.to_dict("list"))
        return
    exp_cols = [kw.get("col_mapper", {}).get(c, c) for c in df.columns]
    if list(r.columns) != exp_cols or list(r.index) != list(df.index) or len(r) != n:
        acc.fail("standardize_dataframe/shape-index-or-columns", case, {"columns": exp_cols, "index": list(df.index)}, {"columns": list(r.columns), "index": list(r.index)})
        return
    changed = False
    tr_vals = {x for c in cols if c.startswith("TR") for x in values[c] if x is not None}
    mh_vals = {x for c in cols if c.startswith("MHC") for x in values[c] if x is not None}
    if tr_vals & mh_vals:
        acc.cls("same-text-in-tr-and-mhc-column")
    for c in cols:
        for i in range(n):
            x = values[c][i]
            e = cell_oracle(c, x, o)
            got = r[c].iloc[i]
            if x is None:
                acc.cls("missing-cell")
            elif e is None:
                acc.cls("junk-cell")
            if x is not None and cell_oracle(c, x, OPT_DEFAULT) != e:
                acc.cls("option-sensitive-cell")
            if not _same_cell(got, e):
                optkey = "defaults" if o == OPT_DEFAULT else "+".join(k for k in o if o[k] != OPT_DEFAULT[k])
                acc.fail("standardize_dataframe/cell/%s/%s" % (c, optkey), case, e, got, note="row %d input %r" % (i, x))
                return
            if not _same_cell(e, x):
                changed = True
    for c in df.columns:
        if c in ("extra", "Extra text", "TRBV_as_submitted", "TRAJ quality", "my CDR3A", "MHCA_raw") and list(r[c]) != list(df[c]):
            acc.fail("standardize_dataframe/non-standard-column-changed", case, list(df[c]), list(r[c]))
            return
    if not o["standardize"]:
        ren = df.rename(columns=kw.get("col_mapper", {}))
        if not r.equals(ren):
            acc.fail("standardize_dataframe/standardize=False-not-identity", case, ren.to_dict("list"), r.to_dict("list"))
            return
    acc.ok((cols, tuple(tuple(str(r[c].iloc[i]) for c in cols) for i in range(n))), nontrivial=changed)


def _check_merge_dup(acc, case):
    import collections
    import pandas as pd
    import pyrepseq
    keylists = case[1]
    nt = len(keylists)
    acc.cls("merge-repeated-keys")
    if any(len(kl) == 0 for kl in keylists):
        acc.cls("merge-table-without-rows")
    if all(k == keylists[0] for k in keylists) and list(keylists[0]) == sorted(keylists[0]):
        acc.cls("merge-identical-sorted-key-sequences")
    vals = [[100 * ti + 10 * pos + k for pos, k in enumerate(kl)] for ti, kl in enumerate(keylists)]
    for on in ("index", "k"):
        for suff in (None, ["s%d" % i for i in range(nt)]):
            for named_index in ((False, True) if suff else (False,)):
                for how in (None, "inner", "left"):
                    dfs = []
                    for ti, kl in enumerate(keylists):
                        vname = "v" if suff else "v%d" % ti
                        if on == "index":
                            d = pd.DataFrame({vname: pd.Series(vals[ti], dtype="int64").values}, index=pd.Index(list(kl), dtype="int64"))
                            if named_index:
                                # a data column that happens to be called "index" (the leftover of a reset_index()): the key is still the row index
                                acc.cls("merge-data-column-called-index")
                                d["index"] = d[vname] + 1000
                        else:
                            d = pd.DataFrame({on: pd.Series(list(kl), dtype="int64"), vname: pd.Series(vals[ti], dtype="int64")})
                            if named_index:
                                # the table still carries an (unrelated) index that happens to be named like the key column
                                acc.cls("merge-index-named-like-key-column")
                                d.index = pd.Index(range(50, 50 + len(kl)), name=on)
                        dfs.append(d)
                    snaps = [d.copy(deep=True) for d in dfs]
                    kw = {"how": how} if how else {}
                    args = (dfs, on) if not suff else (dfs, on, suff)
                    r = acc.call(pyrepseq.multimerge, *args, **kw)
                    names = ["v_s%d" % i for i in range(nt)] if suff else ["v%d" % i for i in range(nt)]
                    sets = [set(kl) for kl in keylists]
                    if how == "inner":
                        keys = set.intersection(*sets)
                    elif how == "left":
                        keys = sets[0]
                    else:
                        keys = set.union(*sets)
                    exp = collections.Counter()
                    for k in keys:
                        per = [[v for v, kk in zip(vals[ti], keylists[ti]) if kk == k] or [None] for ti in range(nt)]
                        for combo in itertools.product(*per):
                            exp[(k,) + combo] += 1
                    key = "multimerge/repeated-keys/on-%s/%s/%s" % (on if on == "index" else "column", "suffixes" if suff else "no-suffixes", how or "default-outer")
                    if raised(r):
                        acc.fail(key + "/raised-" + r.type, case, sorted(exp, key=str), r)
                        return
                    try:
                        if on != "index" and not suff:
                            got_keys, body = list(r[on]), r.drop(columns=[on])
                        else:
                            got_keys, body = list(r.index), r
                        got = collections.Counter()
                        for pos, k in enumerate(got_keys):
                            got[(k,) + tuple(None if pd.isna(body[nm].iloc[pos]) else int(body[nm].iloc[pos]) for nm in names)] += 1
                        okc = sorted(body.columns) == sorted(names + (["index_s%d" % i for i in range(nt)] if (named_index and on == "index") else []))
                        if okc and named_index and on == "index":
                            for i in range(nt):
                                a_, b_ = body["index_s%d" % i], body["v_s%d" % i]
                                if not ((a_ - 1000 == b_) | (a_.isna() & b_.isna())).all():
                                    okc = False
                    except Exception as e:
                        acc.fail(key + "/malformed", case, sorted(exp, key=str), repr(r)[:300], note=repr(e))
                        return
                    if not okc or got != exp:
                        acc.fail(key + "/rows", case, {"columns": names, "rows": sorted(exp.elements(), key=str)}, {"columns": list(body.columns), "rows": sorted(got.elements(), key=str)}, note="index named like the key column" if named_index else "")
                        return
                    if any(not a.equals(b) for a, b in zip(dfs, snaps)):
                        acc.fail("multimerge/input-modified", case, "inputs unchanged", "changed")
                        return
                    acc.ok((on, bool(suff), how, len(got)), nontrivial=True)


def _check_merge(acc, case):
    import pandas as pd
    import pyrepseq
    keysets = case[1]
    nt = len(keysets)
    union = sorted(set().union(*keysets))
    inter = sorted(set(keysets[0]).intersection(*keysets[1:]))
    if union != inter:
        acc.cls("merge-partial-keys")
    for on in ("index", "k", "x", "in"):         # a key column may have any name, e.g. one that is a substring of "index"
        for suff in (None, ["s%d" % i for i in range(nt)]):
            for how in (None, "inner", "left"):
                dfs = []
                for ti, ks in enumerate(keysets):
                    vname = "v" if suff else "v%d" % ti
                    # keys deliberately not sorted inside a table
                    kk = list(ks)[::-1]
                    d = pd.DataFrame({vname: [10 * ti + k for k in kk]}, index=pd.Index(kk, name=None))
                    if on != "index":
                        d = pd.DataFrame({on: kk, vname: [10 * ti + k for k in kk]})
                    dfs.append(d)
                snaps = [d.copy(deep=True) for d in dfs]
                if on != "index":
                    acc.cls("merge-on-column")
                if suff:
                    acc.cls("merge-suffixes")
                kw = {}
                if how:
                    kw["how"] = how
                args = (dfs, on) if not suff else (dfs, on, suff)
                r = acc.call(pyrepseq.multimerge, *args, **kw)
                keys = inter if how == "inner" else (sorted(keysets[0]) if how == "left" else union)      # iterated left join keeps the first table's keys
                names = ["v_s%d" % i for i in range(nt)] if suff else ["v%d" % i for i in range(nt)]
                exp = {k: tuple((10 * ti + k) if k in keysets[ti] else None for ti in range(nt)) for k in keys}
                key = "multimerge/on-%s/%s/%s" % ("index" if on == "index" else ("column" if on == "k" else "column-named-" + on), "suffixes" if suff else "no-suffixes", how or "default-outer")
                rc = ("merge", keysets)
                if raised(r):
                    acc.fail(key + "/raised-" + r.type, rc, exp, r)
                    return
                try:
                    if on != "index" and not suff:
                        got_keys = list(r[on])
                        body = r.drop(columns=[on])
                    else:
                        got_keys = list(r.index)
                        body = r
                    got = {}
                    for pos, k in enumerate(got_keys):
                        if k in got:
                            raise ValueError("key twice")
                        got[k] = tuple(None if pd.isna(body[nm].iloc[pos]) else body[nm].iloc[pos] for nm in names)
                    okc = sorted(body.columns) == sorted(names)
                except Exception as e:
                    acc.fail(key + "/malformed", rc, {"columns": names, "rows": exp}, repr(r)[:300], note=repr(e))
                    return
                if not okc or got != exp:
                    acc.fail(key + "/rows", rc, {"columns": names, "rows": exp}, {"columns": list(body.columns), "rows": got})
                    return
                if any(not a.equals(b) for a, b in zip(dfs, snaps)):
                    acc.fail("multimerge/input-modified", rc, "inputs unchanged", "changed")
                    return
                acc.ok((on, bool(suff), how, tuple(sorted(got))), nontrivial=union != inter)
