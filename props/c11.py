"""C11 - kdtree results are independent of worker count, chunking and compression; max_returns."""
import itertools
import math
from mc.core import Space, HarnessError, raised
from mc import enum as E
from mc.refmodel import neighbors_within, ref_lev, ref_hamming
from mc.nnutil import diagnose, digest
from mc.seams import explore_choices, virtual_pool

ID = "C11"
RULE = ("configurations: every (list, n_cpu, mode) of the grid is run on the real multiprocessing.Pool and compared with the "
        "absolute reference and with the n_cpu=1, compression=1 run of the same tree; every compression 1..25 on small universes; "
        "schedules: nn.Pool replaced by a virtual pool (fork-snapshot semantics) whose chunk-to-worker assignment and completion "
        "order are enumerated exhaustively; max_returns: per query count/true/closest checks; non-trivial = expected set non-empty")
ASSUMPTIONS = ["real OS timing of pool workers is not controlled; Pool.map is order-preserving by contract and every chunk schedule is enumerated in the virtual pool",
               "virtual pool models Pool(n) with map/starmap/imap/imap_unordered and the fork start method"]
REQUIRED_CLASSES = {"all": ["n_cpu>len", "n_cpu==len", "chunksize-does-not-divide", "virtual-schedule", "compression>1", "max_returns-truncates", "mode-hamming", "mode-callable", "long-sequences>=127", "all-sequences-of-one-length", "isolated-sequences", "max_returns-with-many-ties", "hundreds-of-sequences-with-n_cpu>1"]}
MIN_OUTCOMES = 10

MODES = ("default", "hamming", "callable", "callable-half", "callable-rapidfuzz",
         # a radius one ulp below an attained real-valued distance (no tolerance: 0.1 > nextafter(0.1, 0)), and a stray
         # max_custom_distance without a custom distance (documented as ignored)
         "callable-tenth-below-0.1", "callable-tenth-below-0.2", "default-stray-maxcd", "hamming-stray-maxcd")
MR_MODES = MODES + ("callable-lendiff",)     # max_returns also with a custom distance that does not rank candidates like Levenshtein
_BASE = ["AC", "A", "CA", "AA", "ACD", "C", "CAD", "AAC", "", "ACC", "DA", "AD", "CC", "AC", "ADC", "D", "CD"]
SIZES = (1, 2, 3, 4, 5, 6, 7, 8, 9, 11, 13, 16, 17)
# the same with isolated sequences (no candidate but themselves inside the KD ball) before, between and after the others
_ISO = ["WWWWWWW", "AC", "A", "YYYYYYYYY", "CA", "AA", "WYWYWYWYWYW", "ACD", "C", "CAD", "HHHHHHHH", "HHHHHHHH", "AAC", "", "ACC", "FFFFFFFFFF", "DA"]


def lendiff_lev(a, b):
    return ref_lev(a, b) + abs(len(a) - len(b)) / 2


def lendiff(a, b):
    return abs(len(a) - len(b))


def half_lev(a, b):
    return ref_lev(a, b) / 2


def tenth_lev(a, b):
    return 0.1 * ref_lev(a, b)


def posweight(a, b):
    """position-weighted mismatch count with weights 0.1, 0.2, 0.3, ...: 0.1 + 0.2 = 0.30000000000000004 competes with 0.3"""
    n = min(len(a), len(b))
    return sum(0.1 * (i + 1) for i in range(n) if a[i] != b[i]) + 0.1 * sum(range(n + 1, max(len(a), len(b)) + 1))


def mode_kw(mode):
    if mode == "default":
        return {}
    if mode == "callable-posweight":
        return dict(custom_distance=posweight)
    if mode == "default-stray-maxcd":
        return dict(max_custom_distance=0.5)
    if mode == "hamming-stray-maxcd":
        return dict(custom_distance="hamming", max_custom_distance=0)
    if mode.startswith("callable-tenth-below-"):
        return dict(custom_distance=tenth_lev, max_custom_distance=math.nextafter(float(mode.rsplit("-", 1)[1]), 0.0))
    if mode == "hamming":
        return dict(custom_distance="hamming")
    if mode == "callable-lendiff":
        return dict(custom_distance=lendiff)
    if mode == "callable-half":
        # smaller than the length difference of the pair; radius below max_edits
        return dict(custom_distance=half_lev, max_custom_distance=1.0)
    if mode == "callable-rapidfuzz":
        from rapidfuzz.distance.Levenshtein import distance
        return dict(custom_distance=distance, max_custom_distance=1)
    return dict(custom_distance=lendiff_lev, max_custom_distance=2.0)


def expected(seqs, k, mode):
    if mode in ("hamming", "hamming-stray-maxcd"):
        return neighbors_within(list(seqs), k, dist="hamming")
    base = neighbors_within(list(seqs), k)
    if mode in ("default", "default-stray-maxcd"):
        return base
    if mode.startswith("callable-tenth-below-"):
        T = math.nextafter(float(mode.rsplit("-", 1)[1]), 0.0)
        return {(i, j, 0.1 * d) for i, j, d in base if 0.1 * d <= T}
    if mode == "callable-posweight":
        return {(i, j, posweight(seqs[i], seqs[j])) for i, j, d in base}
    if mode == "callable-lendiff":
        return {(i, j, lendiff(seqs[i], seqs[j])) for i, j, d in base}
    if mode == "callable-half":
        return {(i, j, d / 2) for i, j, d in base if d / 2 <= 1.0}
    if mode == "callable-rapidfuzz":
        return {(i, j, d) for i, j, d in base if d <= 1}
    return {(i, j, lendiff_lev(seqs[i], seqs[j])) for i, j, d in base if lendiff_lev(seqs[i], seqs[j]) <= 2.0}


def spaces(tier):
    q = tier == "quick"

    def gen_real():
        ncpus = (1, 2, 3, 4, 7, 8, 16) if q else tuple(range(1, 17))
        for n in SIZES:
            for ncpu in ncpus:
                for mode in MODES:
                    yield ("real", n, ncpu, mode, 1 if n < 9 else 2)
                if n >= 3:
                    for mode in ("default", "hamming", "callable"):
                        yield ("real", n, ncpu, mode, 1 if n < 9 else 2, "isolated")

    def gen_big():
        # a few hundred to a thousand sequences whose number is not a multiple of the worker count (neighbours among the last rows)
        for N, ncpu in ((513, 2), (601, 2), (601, 3), (1025, 4), (1001, 7)):
            yield ("real-big", N, ncpu)

    def gen_comp():
        for alpha, L in (("ACD", 4), ("AC", 5)):
            for comp in (1, 2, 7):
                for k in (1, 2, 3):
                    yield ("eqlen", alpha, L, comp, k)
        for alpha in ("ACD", "DEF", "WYA"):
            for comp in range(1, 26):
                for k in (1, 2, 3):
                    yield ("comp", alpha, 3 if q else 4, comp, k)

    def gen_long():
        for n in (127, 128, 129, 255, 256):
            for comp in (1, 2, 10, 20, 25):
                yield ("long", n, comp)

    def gen_virtual():
        lists = [tuple(_BASE[:n]) for n in ((2, 3, 4) if q else (2, 3, 4, 5))] + [("A", "A", "A"), ("AC", "CA", "A", "ACD")]
        for seqs in lists:
            for ncpu in (2, 3):
                for mode in MODES:
                    yield ("virtual", seqs, ncpu, mode)

    def gen_maxret():
        for seqs in E.lists(E.universe("AC", 2), 4 if q else 5, minlen=2):
            yield ("maxret", seqs)
        for alpha, L in (("AC", 4), ("ACD", 3)):
            for m in (1, 2, 3, 5):
                for mode in MR_MODES:
                    yield ("maxret-uni", alpha, L, m, mode)
        for comp in (1, 2, 5, 10, 25):
            for m in (1, 2):
                for mode in MR_MODES:
                    yield ("maxret-comp", comp, m, mode)
        for m in (1, 2, 3):
            for mode in ("default", "hamming", "callable", "callable-posweight"):
                yield ("maxret-ties", m, mode)

    return [
        Space("real-pool-grid", gen_real, "prefixes of a 17-string corpus of sizes %s x n_cpu in 1..16 (quick: 1,2,3,4,7,8,16) x {default,hamming,callable}; real multiprocessing.Pool" % (SIZES,), per_case=True),
        Space("real-pool-hundreds-of-sequences", gen_big, "size-boundary collections of 513..1025 sequences (clonal families next to 256, 512, 1000, 1024 and the end) x n_cpu in {2,3,4,7} not dividing the size; default and Hamming mode", per_case=True),
        Space("compression-grid", gen_comp, "U(alphabet,3|4) for 3 bin-straddling alphabets x compression 1..25 x k in 1..3 x 3 modes at n_cpu=1"),
        Space("long-sequences-x-compression", gen_long, "sequences of 127..256 residues (homopolymers and a 10-letter repeat, one edit apart) x compression in {1,2,10,20,25} x 3 modes x k in 1..2"),
        Space("virtual-pool-schedules", gen_virtual, "every chunk-to-worker assignment and completion order for lists of 2..4(5) sequences x n_cpu in {2,3} x 3 modes", per_case=True),
        Space("max_returns", gen_maxret, "Lists(U(AC,2),4|5), two universes and a bin-sharing family x compression in {1,2,5,10,25}; max_returns in {1,2,3,N} x 4 modes (incl. a callable that does not rank like Levenshtein)"),
    ]


def _kd(acc, seqs, k, mode, **kw):
    import pyrepseq
    kw.update(mode_kw(mode))
    return acc.call(pyrepseq.kdtree, list(seqs), k, **kw)


def _report(acc, key, case, exp, res, note=""):
    acc.fail(key, case, sorted(exp)[:30], digest(res) if isinstance(digest(res), str) else digest(res)[:30], note=note)


def check_case(case, acc):
    kind = case[0]
    if kind == "real":
        n, ncpu, mode, k = case[1:5]
        seqs = _BASE[:n]
        if len(case) > 5:
            seqs = _ISO[:n]
            acc.cls("isolated-sequences")
        if ncpu > n:
            acc.cls("n_cpu>len")
        if ncpu == n:
            acc.cls("n_cpu==len")
        if ncpu > 1 and n >= ncpu and n % max(1, n // ncpu) != 0:
            acc.cls("chunksize-does-not-divide")
        acc.cls("mode-" + mode.split("-")[0])
        if mode in ("callable-half", "callable-rapidfuzz"):
            k = 2
        exp = expected(seqs, k, mode)
        res = _kd(acc, seqs, k, mode, n_cpu=ncpu)
        bad = diagnose(res, exp)
        if bad is not None:
            cfg = "n_cpu>len" if ncpu > n else ("n_cpu>1" if ncpu > 1 else "n_cpu=1")
            _report(acc, "kdtree/%s/%s/%s" % (mode, cfg, bad[0]), case, exp, res, note="real pool; %s" % (bad,))
            return
        base = _kd(acc, seqs, k, mode, n_cpu=1, compression=1)
        if digest(base) != digest(res):
            _report(acc, "kdtree/%s/differs-from-single-process" % mode, case, set(base), res)
            return
        acc.ok((n, mode, digest(res)), nontrivial=bool(exp))
    elif kind == "real-big":
        _, N, ncpu = case
        acc.cls("hundreds-of-sequences-with-n_cpu>1")
        seqs, pos = E.size_family(N, marks=(256, 512, 1000, 1024))
        for mode in ("default", "hamming"):
            exp = expected(seqs, 1, mode)
            res = _kd(acc, seqs, 1, mode, n_cpu=ncpu)
            bad = diagnose(res, exp)
            if bad is not None:
                _report(acc, "kdtree/%s/n_cpu>1/hundreds-of-sequences/%s" % (mode, bad[0]), case, exp, res, note="real pool; %s" % (bad,))
                return
            acc.ok((N, ncpu, mode, len(res)), nontrivial=bool(exp))
    elif kind == "comp":
        _, alpha, L, comp, k = case
        seqs = E.universe(alpha, L)
        if comp > 1:
            acc.cls("compression>1")
        for mode in MODES:
            exp = expected(seqs, k, mode)
            res = _kd(acc, seqs, k, mode, compression=comp)
            bad = diagnose(res, exp)
            if bad is not None:
                rcase = case
                d = bad[1]
                if isinstance(d, tuple) and len(d) >= 2 and isinstance(d[0], int):
                    red = (seqs[d[0]], seqs[d[1]])
                    r2 = _kd(acc, red, k, mode, compression=comp)
                    if diagnose(r2, expected(red, k, mode)) is not None:
                        rcase, exp, res = ("comp1", red, comp, k, mode), expected(red, k, mode), r2
                _report(acc, "kdtree/%s/compression/%s" % (mode, bad[0]), rcase, exp, res, note=str(bad))
            else:
                acc.ok((alpha, comp, k, mode, len(res)), nontrivial=bool(exp))
    elif kind == "eqlen":
        _, alpha, L, comp, k = case
        seqs = ["".join(t) for t in itertools.product(alpha, repeat=L)]
        acc.cls("all-sequences-of-one-length")
        for mode in MODES:
            for ncpu in (1, 2) if comp == 1 and k == 2 else (1,):
                exp = expected(seqs, k, mode)
                res = _kd(acc, seqs, k, mode, compression=comp, n_cpu=ncpu)
                bad = diagnose(res, exp)
                if bad is not None:
                    _report(acc, "kdtree/%s/equal-length-collection/%s" % (mode, bad[0]), case, exp, res, note=str(bad))
                    return
                acc.ok((alpha, L, comp, k, mode, len(res)), nontrivial=bool(exp))
    elif kind == "comp1":
        _, seqs, comp, k, mode = case
        exp = expected(seqs, k, mode)
        res = _kd(acc, seqs, k, mode, compression=comp)
        if diagnose(res, exp) is not None:
            _report(acc, "kdtree/%s/compression/%s" % (mode, diagnose(res, exp)[0]), case, exp, res)
        else:
            acc.ok()
    elif kind == "virtual":
        _check_virtual(acc, case)
    elif kind == "virtual1":
        _check_virtual(acc, case[:4], only=case[4])
    elif kind == "maxret":
        seqs = case[1]
        for m in (1, 2, 3, len(seqs)):
            for mode in MR_MODES:
                for k in (1, 2):
                    _check_maxret(acc, ("maxret1", seqs, m, mode, k), seqs, m, mode, k)
    elif kind == "maxret1":
        _, seqs, m, mode, k = case
        _check_maxret(acc, case, seqs, m, mode, k)
    elif kind == "maxret-comp":
        _, comp, m, mode = case
        # bin-sharing letters: with compression the KD ball holds candidates that are no true neighbours
        seqs = ["CASSL", "CASSLG", "CAWWL", "CASWL", "CAWSL", "CATTL", "CASSV", "CWSSL"]
        for k in (1, 2):
            _check_maxret(acc, case, seqs, m, mode, k, compression=comp)
    elif kind == "maxret-ties":
        # many equally distant neighbours per query (a clone, its one-substitution variants and a few two-substitution ones): the
        # per-query guarantees hold, and - as the result must not depend on the configuration - the same neighbours are reported
        # for every compression and worker count; distances that differ by less than 1e-9 are still different distances
        _, m, mode = case
        acc.cls("max_returns-with-many-ties")
        base = "CASSLG"
        seqs = [base] * 6 + [base[:i] + c + base[i + 1:] for i in range(6) for c in "AW"] + ["AWSSLG", "CAWWLG", "CASSAW", "WASSLW", base, "CASSL", "CASSLGG"]
        for k in (1, 2):
            ref_run = None
            for cfg in (dict(), dict(compression=2), dict(compression=5), dict(n_cpu=2), dict(compression=3, n_cpu=3)):
                res = _check_maxret(acc, case, seqs, m, mode, k, **cfg)
                if res is None:
                    return
                if ref_run is None:
                    ref_run = digest(res)
                elif digest(res) != ref_run:
                    acc.fail("kdtree/%s/max_returns/depends-on-configuration" % mode, case, "the neighbours reported by the uncompressed single-process run", cfg, note="k=%d m=%d" % (k, m))
                    return
    elif kind == "long":
        _, n, comp = case
        acc.cls("long-sequences>=127")
        seqs = ["A" * n, "A" * (n + 1), "A" * (n - 1) + "C", "ACDEFGHIKL" * (n // 10) + "A" * (n % 10), "ACDEFGHIKL" * (n // 10) + "A" * (n % 10) + "L", "CAF"]
        for mode in MODES:
            for k in (1, 2):
                exp = expected(seqs, k, mode)
                res = _kd(acc, seqs, k, mode, compression=comp)
                bad = diagnose(res, exp)
                if bad is not None:
                    _report(acc, "kdtree/%s/long-sequences/%s" % (mode, bad[0]), case, exp, res, note=str(bad))
                    return
                acc.ok((n, comp, mode, k, len(res)), nontrivial=bool(exp))
    elif kind == "maxret-uni":
        _, alpha, L, m, mode = case
        seqs = E.universe(alpha, L)
        for k in (1, 2):
            _check_maxret(acc, case, seqs, m, mode, k)
    else:
        raise HarnessError("unknown case %r" % (case,))


def _check_virtual(acc, case, only=None):
    import pyrepseq.nn as nn
    _, seqs, ncpu, mode = case
    k = 1
    exp = expected(seqs, k, mode)
    stats = {}

    def run(ch):
        with virtual_pool(ch, nn, stats=stats):
            return _kd(acc, seqs, k, mode, n_cpu=ncpu)

    if only is not None:
        from mc.seams import Chooser
        res = run(Chooser(only))
        res2 = run(Chooser(only))
        if digest(res) != digest(res2):
            raise HarnessError("replaying schedule %r twice gave different observations" % (only,))
        bad = diagnose(res, exp)
        if bad is not None:
            _report(acc, "kdtree/%s/virtual-schedule/%s" % (mode, bad[0]), case + (only,), exp, res)
        else:
            acc.ok()
        return
    outcomes = set()
    nsched = 0
    first = True
    for choices, res in explore_choices(run):
        nsched += 1
        acc.cls("virtual-schedule")
        if first:
            # determinism of the harness: the same schedule replayed must give the same observation
            from mc.seams import Chooser
            res2 = run(Chooser(choices))
            if digest(res) != digest(res2):
                raise HarnessError("replaying schedule %r twice gave different observations" % (choices,))
            first = False
        bad = diagnose(res, exp)
        outcomes.add(digest(res))
        if bad is not None:
            cfg = "n_cpu>len" if ncpu > len(seqs) else "n_cpu<=len"
            _report(acc, "kdtree/%s/virtual-schedule/%s/%s" % (mode, cfg, bad[0]), ("virtual1", seqs, ncpu, mode, choices), exp, res,
                    note="schedule %r: %s" % (choices, bad))
            return
    acc.extra["schedules"] += nsched
    acc.extra["max_chunks"] = max(acc.extra["max_chunks"], stats.get("chunks", 0))
    if len(outcomes) != 1:
        acc.fail("kdtree/%s/virtual-schedule/outcome-depends-on-schedule" % mode, case, "1 outcome", len(outcomes))
    else:
        acc.ok((seqs, ncpu, mode, nsched, tuple(outcomes)), nontrivial=bool(exp))


def _check_maxret(acc, case, seqs, m, mode, k, **kw):
    exp = expected(seqs, k, mode)
    res = _kd(acc, seqs, k, mode, max_returns=m, **kw)
    key = "kdtree/%s/max_returns/" % mode
    if raised(res):
        acc.fail(key + "raised-" + res.type, case, "a result", repr(res))
        return
    true = {}
    for i, j, d in exp:
        true.setdefault(i, {})[j] = d
    got = {}
    try:
        for i, j, d in res:
            if int(j) in got.setdefault(int(i), {}):
                acc.fail(key + "pair-twice", case, "each pair once", digest(res)[:30])
                return
            got[int(i)][int(j)] = d
    except Exception:
        acc.fail(key + "malformed", case, "triplets", repr(res)[:200])
        return
    trunc = False
    for i in range(len(seqs)):
        t, g = true.get(i, {}), got.get(i, {})
        if len(t) > m:
            trunc = True
        if len(g) != min(m, len(t)):
            acc.fail(key + "count", case, {"query": i, "expected_count": min(m, len(t)), "true": sorted(t.items())}, sorted(g.items()))
            return
        for j, d in g.items():
            if j not in t or t[j] != d:
                acc.fail(key + "not-a-true-neighbour", case, sorted(t.items()), (i, j, d))
                return
        omitted = [d for j, d in t.items() if j not in g]
        if g and omitted and max(g.values()) > min(omitted):
            acc.fail(key + "closer-neighbour-omitted", case, sorted(t.items()), sorted(g.items()))
            return
    if trunc:
        acc.cls("max_returns-truncates")
    acc.ok((mode, m, k, tuple(sorted((i, len(v)) for i, v in got.items()))), nontrivial=trunc)
    return res
