"""C01 - default neighbour search returns exactly the pairs within max_edits."""
import itertools
from mc.core import Space, HarnessError
from mc import enum as E
from mc.refmodel import neighbors_within, ref_lev, selfcheck_edit
from mc.nnutil import diagnose, digest

ID = "C01"
RULE = ("every case of each listed space is executed on nearest_neighbor and symdel and compared with the "
        "reference set {(i,j,lev): i!=j, lev<=k} (own Wagner-Fischer/trie); a case is non-trivial when the expected "
        "set is non-empty; distinct = distinct case tuples (digest-sharded)")
ASSUMPTIONS = ["strings longer than the stated bounds / alphabets larger than 4 letters are covered only through the CDR3 one-edit/two-edit ball families",
               "rapidfuzz is exercised, not trusted: every reported d is compared with the reference"]
REQUIRED_CLASSES = {"all": ["clone-of-more-than-128-copies", "non-amino-acid-symbol-after-long-prefix", "all-sequences-of-one-length", "container-reused-with-new-contents", "size-boundary-family", "non-ascii-alphabet", "needs-indel", "has-empty-string", "duplicate-at-distance-0", "shorter-than-k", "homopolymer", "large-radius-on-long-strings", "strings-across-the-64-residue-word-size"]}
MIN_OUTCOMES = 10

CDR3_SEEDS = ("CASSLGQAYEQYF", "CAVRDSNYQLIW", "CASSPTGGDTQYF", "CAS")
AA = "ACDEFGHIKLMNPQRSTVWY"


def _engines():
    import pyrepseq
    return (("nearest_neighbor", pyrepseq.nearest_neighbor), ("symdel", pyrepseq.symdel))


def _series_engines():
    """the same search with the collection given as a pandas Series whose labels are not 0..n-1 in order
    (positions must stay 0-based ordinals) and as a NumPy array"""
    import numpy as np
    import pandas as pd
    import pyrepseq

    def as_perm_series(seqs, k):
        n = len(seqs)
        return pyrepseq.nearest_neighbor(pd.Series(list(seqs), index=[(i * 7 + 3) % n for i in range(n)] if n % 7 else [(i + 1) % n for i in range(n)]), k)

    def as_shifted_series(seqs, k):
        return pyrepseq.symdel(pd.Series(list(seqs), index=range(100, 100 + len(seqs))), k)

    def as_array(seqs, k):
        # fixed-width NumPy strings cannot hold a trailing NUL: such collections are boxed as object arrays (the harness must not alter the input)
        arr = np.array(list(seqs), dtype=object) if any(s.endswith("\x00") for s in seqs) else np.array(list(seqs))
        return pyrepseq.symdel(arr, k)
    return (("nearest_neighbor[Series,permuted-labels]", as_perm_series), ("symdel[Series,shifted-labels]", as_shifted_series), ("symdel[ndarray]", as_array))


def spaces(tier):
    q = tier == "quick"
    uni = [("AC", 7), ("ACD", 5), ("ACDE", 4)] if q else [("AC", 9), ("ACD", 6), ("ACDE", 5)]

    def gen_allpairs():
        for alpha, L in uni:
            for k in (1, 2, 3, 4) if q else (1, 2, 3):
                for order in ("fwd", "rev"):
                    yield ("allpairs", alpha, L, k, order)
        if not q:
            for alpha, L in (("AC", 7), ("ACD", 5), ("ACDE", 4)):
                yield ("allpairs", alpha, L, 4, "fwd")
                yield ("allpairs", alpha, L, 4, "rev")
            for alpha, L in (("AC", 10), ("ACD", 7)):       # the largest universes: radii 1..2 only (at k>=3 nearly every pair is a neighbour)
                for k in (1, 2):
                    yield ("allpairs", alpha, L, k, "fwd")
        for alpha, L in [("AC", 7), ("ACD", 5), ("ACDE", 4)]:
            yield ("allpairs", alpha, L, L + 1, "fwd")

    def gen_lists():
        for U, m in ([(E.universe("AC", 2), 3)] if q else [(E.universe("AC", 2), 4), (E.universe("AC", 3), 3)]):
            for seqs in E.lists(U, m):
                for k in (1, 2, 3):
                    yield ("list", seqs, k)

    def gen_size():
        for N in (257, 1025, 65560):
            yield ("sizefam", N, 1)
        yield ("sizefam", 1025, 2)
        # multi-byte (non-ASCII) letters: deletion variants must be taken on characters, not bytes
        for k in (1, 2, 3):
            yield ("allpairs", "A\u03b1\u00e9", 4, k, "fwd")
            yield ("allpairs", "\u03b1\u4e2d", 5, k, "rev")
            yield ("allpairs", "A\x00", 4, k, "fwd")       # NUL is a legal character; fixed-width NumPy strings drop trailing NULs
            yield ("allpairs", "AB|", 3, k, "fwd")         # characters that code likes to use as separators
            yield ("allpairs", "A\n\r", 3, k, "fwd")      # line terminators are characters like any other, also at the end of a string
            yield ("allpairs", "A_.", 3, k, "rev")
            # every sequence of one and the same length: shifted pairs have Levenshtein < Hamming
            yield ("eqlen", "AC", 6, k)
            yield ("eqlen", "ACD", 4, k)
            yield ("eqlen", "ACDE", 3, k)
        # large radii on long strings (math.comb(len, k) beyond 1000: k=2 on 46-mers, k=3 on 22-mers, k=4..5 on 14-mers)
        for si, k in ((0, 4), (1, 4), (2, 4), (4, 4), (0, 5), (3, 3), (3, 4), (0, 3)):
            yield ("radius", si, k)
        yield ("radius-46", 2)
        # strings around the 64-residue machine-word size of bit-parallel scorers (and 128): block deletions at the very front, in the
        # middle and at the end, spread substitutions, a residue that occurs once replaced by one that occurs nowhere else
        for L in (63, 64, 65, 66, 81, 127, 128, 129, 130):
            for k in (1, 2):
                yield ("radius-long", L, k)
        yield ("clone", 150, 1)
        yield ("clone-split", 600, 500, 1)      # > 1024 copies of one sequence, a neighbour placed between two runs of the copies
        yield ("clone", 257, 2)
        yield ("late-symbol", 130, 1)
        yield ("late-symbol", 1030, 1)

    def gen_reuse():
        U = E.universe("AC", 2)
        for a in E.lists(U, 3, minlen=2):
            yield ("reuse", a)

    def gen_family():
        for si in range(len(CDR3_SEEDS)):
            for k in (1, 2):
                yield ("family", si, 1, AA, k)
        if not q:
            for si in range(len(CDR3_SEEDS)):
                yield ("family", si, 2, "ACSG", 2)
            yield ("family", len(CDR3_SEEDS) - 1, 2, "ACSG", 3)      # k=3 on the two-edit ball only around the 3-residue seed (cost)

    return [
        Space("all-pairs-of-universe", gen_allpairs, "whole universe U(alphabet,L) as one list, fwd and reversed order: %s x k in 1..4 (thorough: 1..3, and k=4 on the quick universes), k=L+1; thorough also U(AC,10), U(ACD,7) x k in 1..2" % uni, per_case=True),
        Space("size-boundary-and-non-ascii", gen_size, "collections of 257, 1025 and 65560 strings whose positions next to 0, 256, 1024, 65536 and the end hold a clonal family (fillers mutually >= 2 edits apart); universes over multi-byte alphabets {A, alpha, e-acute} and {alpha, CJK}, with NUL, with separator-like characters (| _ .); all strings of exactly one length (AC^6, ACD^4, ACDE^3); radius families (block deletions at front / middle / end, spread substitutions, indel mixtures) around seeds of 14..46 residues at k = 2..5 and around seeds of 63..66, 81, 127..130 residues (64-residue word size) at k = 1..2", per_case=True),
        Space("all-lists", gen_lists, "all ordered lists with repetition: Lists(U(AC,2),3) [quick] / Lists(U(AC,2),4)+Lists(U(AC,3),3) [thorough] x k in 1..3"),
        Space("same-container-new-contents", gen_reuse, "one list / ndarray object searched, overwritten in place with every other list of the same length over U(AC,2) (lengths 2..3) and searched again: the second answer must be that of the new contents", shards=32),
        Space("cdr3-edit-ball-families", gen_family, "complete one-edit ball over the 20 amino acids (thorough: + two-edit ball over ACSG) around %d CDR3 seeds, k in 1..2(3)" % len(CDR3_SEEDS), per_case=True),
    ]


def selfcheck(tier):
    selfcheck_edit("AC", 4, 3)
    selfcheck_edit("ACD", 3, 4)


def family(si, radius, alphabet):
    from mc.refmodel import ref_ball
    seed = CDR3_SEEDS[si]
    ball = ref_ball(seed, alphabet, radius)
    return [seed] + sorted(s for s in ball if s != seed)


def build(case):
    kind = case[0]
    if kind == "list":
        return list(case[1]), case[2]
    if kind == "allpairs":
        _, alpha, L, k, order = case
        U = E.universe(alpha, L)
        if order == "rev":
            U = U[::-1]
        return U, k
    if kind == "family":
        _, si, radius, alphabet, k = case
        return family(si, radius, alphabet), k
    if kind == "sizefam":
        return E.size_family(case[1])[0], case[2]
    if kind == "clone":
        # an expanded clone: the same sequence many times (distance-0 neighbours at different positions) plus a few variants
        _, n, k = case
        base = "CASSLGQAYEQYF"
        return [base] * n + [base[:5] + "A" + base[6:], base[:-1], base + "G", "CAWWLGQAYEQYF", base], k
    if kind == "clone-split":
        _, n1, n2, k = case
        base = "CASSLGQAYEQYF"
        return [base] * n1 + [base[:5] + "A" + base[6:]] + [base] * n2 + [base[:-1], "CAWWLGQAYEQYF"], k
    if kind == "late-symbol":
        # a long amino-acid-only prefix followed by sequences with other symbols (X, *, lower case) next to their neighbours
        _, n, k = case
        base = "CASSLGQAYEQYF"
        fill = [E.filler(i) for i in range(n)]
        fill[0], fill[1], fill[n // 2] = base, base[:4] + "T" + base[5:], base[:7] + "K" + base[8:]
        return fill + [base[:4] + "X" + base[5:], base[:4] + "*" + base[5:], base.lower(), base[:7] + "x" + base[8:], base + "X"], k
    if kind == "radius":
        return E.radius_family(E.RADIUS_SEEDS[case[1]], case[2]), case[2]
    if kind == "radius-long":
        _, L, k = case
        letters = "ACDEFGHIKLNPQRSTVY"
        seed = [letters[(i * 7 + (i // 18) * 3 + (i * i) // 5) % 18] for i in range(L)]
        seed[L // 2] = "M"                      # occurs once; radius_family substitutes it by W, which occurs nowhere
        return E.radius_family("".join(seed), k), k
    if kind == "radius-46":
        return E.radius_family("CASSLGQGNTEAFFGQGTRLTVVEDLKNVFPPEVAVFEPSEAEISHC", case[1]), case[1]
    if kind == "eqlen":
        _, alpha, L, k = case
        return ["".join(t) for t in itertools.product(alpha, repeat=L)], k
    raise HarnessError("unknown case %r" % (case,))


def _check_reuse(acc, case):
    """the caller owns its container: changing it in place between two calls must be reflected by the second call"""
    import numpy as np
    import pyrepseq
    a = case[1]
    n = len(a)
    U = E.universe("AC", 2)
    for k in (1, 2):
        for cname in ("list", "ndarray"):
            for fn_name in ("nearest_neighbor", "symdel"):
                fn = getattr(pyrepseq, fn_name)
                for b in itertools.product(U, repeat=n):
                    if b == a:
                        continue
                    box = list(a) if cname == "list" else np.array(a, dtype="<U2")
                    r1 = acc.call(fn, box, k)
                    box[:] = list(b)
                    r2 = acc.call(fn, box, k)
                    acc.cls("container-reused-with-new-contents")
                    e1, e2 = neighbors_within(list(a), k), neighbors_within(list(b), k)
                    bad = diagnose(r1, e1) or diagnose(r2, e2)
                    if bad is not None:
                        acc.fail("%s/levenshtein/same-container-new-contents/%s" % (fn_name, bad[0]), ("reuse1", a, b, k, cname, fn_name), sorted(e2), digest(r2), note="first contents %r, then %r in the same %s object" % (a, b, cname))
                        return
                    acc.ok((fn_name, k, digest(r2)), nontrivial=bool(e2))


def check_case(case, acc):
    if case[0] == "reuse":
        return _check_reuse(acc, case)
    if case[0] == "reuse1":
        return _check_reuse(acc, ("reuse", case[1]))
    seqs, k = build(case)
    expected = neighbors_within(seqs, k)
    small = case[0] == "list"
    if case[0] == "sizefam":
        acc.cls("size-boundary-family")
    if case[0] == "eqlen":
        acc.cls("all-sequences-of-one-length")
    if case[0] in ("radius", "radius-46"):
        acc.cls("large-radius-on-long-strings")
    if case[0] == "radius-long":
        acc.cls("strings-across-the-64-residue-word-size")
    if case[0] in ("clone", "clone-split"):
        acc.cls("clone-of-more-than-128-copies")
    if case[0] == "late-symbol":
        acc.cls("non-amino-acid-symbol-after-long-prefix")
    if case[0] == "allpairs" and not case[1].isascii():
        acc.cls("non-ascii-alphabet")
    # classes named by the property
    if small:
        if any(s == "" for s in seqs):
            acc.cls("has-empty-string")
        if len(set(seqs)) < len(seqs):
            acc.cls("duplicate-at-distance-0")
        if any(len(s) < k for s in seqs):
            acc.cls("shorter-than-k")
        if any(len(s) >= 2 and len(set(s)) == 1 for s in seqs):
            acc.cls("homopolymer")
        if any(len(seqs[i]) != len(seqs[j]) for i, j, d in expected):
            acc.cls("needs-indel")
    else:
        acc.cls("has-empty-string", int("" in seqs))
        acc.cls("needs-indel", sum(1 for i, j, d in expected if len(seqs[i]) != len(seqs[j])))
        acc.cls("shorter-than-k", sum(1 for s in seqs if len(s) < k))
        acc.cls("homopolymer", sum(1 for s in seqs if len(s) >= 2 and len(set(s)) == 1))
        acc.extra["pairs_decided"] += len(seqs) * (len(seqs) - 1)
    for name, fn in _engines() + (_series_engines() if len(seqs) < 5000 and (k <= 2 or len(seqs) <= 400) else ()):
        res = acc.call(fn, list(seqs), k)
        bad = diagnose(res, expected)
        if bad is None:
            acc.ok((name, digest(res)) if small else (name, case, len(res)), nontrivial=bool(expected))
            continue
        fclass, detail = bad
        key = "%s/levenshtein/%s" % (name, fclass if "[" not in name else "differs-from-list-result")
        rcase, rexp, robs = case, sorted(expected)[:20], digest(res)[:20] if not isinstance(digest(res), str) else digest(res)
        if not small and fclass in ("missing", "spurious", "wrong-d", "self"):
            i, j = detail[0], detail[1]
            red = ("list", (seqs[i], seqs[j]), k)
            r2 = acc.call(fn, list(red[1]), k) if "[" not in name else res
            e2 = neighbors_within(list(red[1]), k)
            if "[" not in name and diagnose(r2, e2) is not None:
                rcase, rexp, robs = red, sorted(e2), digest(r2)
        acc.fail(key, rcase, rexp, robs, note="%s: %s (pair %s)" % (fclass, detail, [seqs[t] for t in detail[:2]] if isinstance(detail, tuple) and len(detail) >= 2 and isinstance(detail[0], int) else ""))
