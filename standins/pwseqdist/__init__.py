"""Stand-in for the optional dependency pwseqdist (absent from the sandbox), for /verif check C14 only.

Only what pyrepseq.nearest_neighbor_tcrdist uses is provided:
    pwseqdist.apply_pairwise_sparse(metric=..., seqs=..., pairs=..., **kwargs)
    pwseqdist.metrics.nb_vector_tcrdist
The CDR3 distance is an own implementation of the TCRdist CDR3 term (BLOSUM62-derived substitution
distance capped at 4, trimming, length-difference gap penalty, optional free gap position).  It is *not*
claimed to equal pwseqdist's numbers; the C14 oracle uses the same function, so what is decided is
pyrepseq's composition around it.  The stand-in asserts that it is called the way pyrepseq documents.
"""
import numpy as np
from . import metrics
from .metrics import reference_tcrdist_cdr3

CALLS = []   # (n_seqs, n_pairs, kwargs) of every call, for harness-side assertions


def apply_pairwise_sparse(metric, seqs, pairs, ncpus=1, use_numba=False, **kwargs):
    if metric is not metrics.nb_vector_tcrdist:
        raise TypeError("stand-in only supports metrics.nb_vector_tcrdist")
    seqs = np.asarray(seqs)
    pairs = np.asarray(pairs)
    if pairs.ndim != 2 or pairs.shape[1] != 2:
        raise ValueError("pairs must have shape (n, 2), got %r" % (pairs.shape,))
    CALLS.append((len(seqs), len(pairs), dict(kwargs, use_numba=use_numba)))
    out = np.zeros(len(pairs), dtype=np.int64)
    for n, (i, j) in enumerate(pairs):
        out[n] = reference_tcrdist_cdr3(str(seqs[int(i)]), str(seqs[int(j)]), **kwargs)
    return out
