import functools

_AA = "ACDEFGHIKLMNPQRSTVWY"


@functools.lru_cache(maxsize=None)
def _submat():
    from Bio.Align import substitution_matrices
    b = substitution_matrices.load("BLOSUM62")
    m = {}
    for a in _AA:
        for c in _AA:
            m[(a, c)] = 0 if a == c else min(4, 4 - int(b[a][c]))
    return m


def reference_tcrdist_cdr3(s1, s2, ntrim=3, ctrim=2, dist_weight=3, gap_penalty=12, fixed_gappos=False, **ignored):
    """TCRdist CDR3 term: trimmed sequences, gap of |len1-len2| residues placed at the best (or the fixed) position
    of the longer sequence, substitution distances of the aligned residues * dist_weight + gap length * gap_penalty."""
    m = _submat()
    a = s1[ntrim:len(s1) - ctrim] if ctrim else s1[ntrim:]
    b = s2[ntrim:len(s2) - ctrim] if ctrim else s2[ntrim:]
    if len(a) > len(b):
        a, b = b, a
    la, lb = len(a), len(b)
    gap = lb - la
    if gap == 0:
        return dist_weight * sum(m[(x, y)] for x, y in zip(a, b))
    if fixed_gappos:
        positions = [min(6 - ntrim, 3 + (la - 5) // 2) if la >= 5 else la // 2]
        positions = [max(0, min(la, positions[0]))]
    else:
        positions = range(0, la + 1)
    best = None
    for g in positions:
        d = sum(m[(a[i], b[i])] for i in range(g)) + sum(m[(a[i], b[i + gap])] for i in range(g, la))
        if best is None or d < best:
            best = d
    return dist_weight * best + gap * gap_penalty


def nb_vector_tcrdist(*args, **kwargs):   # only used as an identity token by pyrepseq
    raise NotImplementedError("stand-in: call through apply_pairwise_sparse")
