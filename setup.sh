#!/bin/bash
# Nothing to build: the framework is pure Python run by /venv/bin/python (which has the repository's dependencies).
set -e
cd "$(dirname "$0")"
mkdir -p evidence replays
/venv/bin/python -c "import numpy, pandas, scipy, rapidfuzz; print('setup ok')"
