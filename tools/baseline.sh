#!/bin/bash
# runs the repository's pinned test-suite (guard off) on $1 (default /repo) and checks all 71 stable tests pass
R="${1:-/repo}"
OUT=$(mktemp /tmp/junit.XXXXXX.xml)
( cd "$R" && env -u PYREPSEQ_VERIF /venv/bin/python -m pytest -ra -q -p no:cacheprovider --timeout=900 --continue-on-collection-errors --junitxml="$OUT" >/dev/null 2>&1 )
/venv/bin/python - "$OUT" <<'PY'
import sys, json, xml.etree.ElementTree as ET
base = json.load(open('/root/.vp/BASELINE.json'))
want = set(base['stable_pass'])
passed = set()
for tc in ET.parse(sys.argv[1]).getroot().iter('testcase'):
    ok = not any(ch.tag in ('failure', 'error', 'skipped') for ch in tc)
    name = tc.get('classname', '') + '::' + tc.get('name', '')
    if ok:
        passed.add(name)
missing = sorted(want - passed)
print("baseline: %d/%d stable tests pass" % (len(want & passed), len(want)))
for m in missing[:10]:
    print("  NOT PASSING:", m)
sys.exit(1 if missing else 0)
PY
rc=$?; rm -f "$OUT"; exit $rc
