#!/usr/bin/env python3
"""Run the checks against the seeded property-breaking changes under /verif/seeded/<name>/.

For each change: scratch worktree of /repo HEAD outside /repo and /verif, apply patch.diff, (optionally) baseline tests must
still pass and demo.py must fail there but pass on the clean tree, then the property's check (VERIF_REPO=<scratch>) must exit 1
with a VIOLATION line.  The scratch worktree is removed afterwards.  Evidence/replays of these runs go to a scratch directory.

usage: tools/seeded.py [--tier quick|thorough] [--full] [name ...]
"""
import json, os, subprocess, sys, shutil, tempfile, time
HERE = os.path.dirname(os.path.dirname(os.path.abspath(__file__)))
args = sys.argv[1:]
tier = "quick"
full = False
outname = None
names = []
while args:
    a = args.pop(0)
    if a == "--tier":
        tier = args.pop(0)
    elif a == "--full":
        full = True
    elif a == "--out":
        outname = args.pop(0)
    elif a == "--part":
        part = args.pop(0)          # "i/n": the i-th of n interleaved parts of the (sorted) list of all changes
        names = "part:" + part
    else:
        names.append(a)
root = os.path.join(HERE, "seeded")
part = names[5:] if isinstance(names, str) else None
if part or not names:
    names = sorted(d for d in os.listdir(root) if os.path.isdir(os.path.join(root, d)) and not d.startswith("_"))
if part:
    pi, pn = map(int, part.split("/"))
    names = names[pi::pn]
results = []
for name in names:
    d = os.path.join(root, name)
    if not os.path.exists(os.path.join(d, "meta.json")):
        print("skipping %s (not a seeded change directory)" % name)
        continue
    meta = json.load(open(os.path.join(d, "meta.json")))
    pids = meta.get("checks") or [meta["property"]]
    wt = tempfile.mkdtemp(prefix="vs_%s_" % name, dir="/tmp")
    os.rmdir(wt)
    scratch = tempfile.mkdtemp(prefix="vsout_", dir="/tmp")
    try:
        subprocess.check_call(["git", "-C", "/repo", "worktree", "add", "-q", "--detach", wt, "HEAD"])
        row = {"name": name, "property": meta["property"]}
        if subprocess.call(["git", "-C", wt, "apply", os.path.join(d, "patch.diff")]) != 0:
            row.update(detected=False, checks={}, error="patch does not apply to /repo HEAD")
            results.append(row)
            print(json.dumps(row))
            continue
        if full:
            b = subprocess.run([os.path.join(HERE, "tools", "baseline.sh"), wt], capture_output=True, text=True)
            row["baseline"] = b.stdout.strip().splitlines()[0] if b.stdout.strip() else "?"
            env = dict(os.environ, PYTHONPATH=wt + ":" + os.path.join(HERE, "standins"), MPLBACKEND="Agg")
            dm = subprocess.run(["/venv/bin/python", os.path.join(d, "demo.py")], cwd=wt, env=env, capture_output=True, text=True)
            env2 = dict(env, PYTHONPATH="/repo:" + os.path.join(HERE, "standins"))
            dc = subprocess.run(["/venv/bin/python", os.path.join(d, "demo.py")], cwd="/repo", env=env2, capture_output=True, text=True)
            row["demo_patched_rc"], row["demo_clean_rc"] = dm.returncode, dc.returncode
        for pid in pids:
            env = dict(os.environ, VERIF_REPO=wt, VERIF_EVIDENCE_DIR=scratch, VERIF_REPLAY_DIR=os.path.join(scratch, "replays"))
            t0 = time.time()
            r = subprocess.run([os.path.join(HERE, "check"), pid, "--tier", tier], env=env, capture_output=True, text=True)
            keys = [l.split("key=")[1].split(" count=")[0] for l in r.stdout.splitlines() if l.strip().startswith("violation key=")]
            row.setdefault("checks", {})[pid] = {"rc": r.returncode, "violations": sum(1 for l in r.stdout.splitlines() if l.startswith("VIOLATION")),
                                                 "keys": keys[:4], "wall_s": round(time.time() - t0, 1),
                                                 "harness_error": [l for l in r.stdout.splitlines() if l.startswith("HARNESS-ERROR")][:1]}
        row["detected"] = any(c["rc"] == 1 and c["violations"] > 0 for c in row["checks"].values())
        results.append(row)
        print(json.dumps(row))
        sys.stdout.flush()
    finally:
        subprocess.call(["git", "-C", "/repo", "worktree", "remove", "--force", wt])
        shutil.rmtree(wt, ignore_errors=True)
        shutil.rmtree(scratch, ignore_errors=True)
if len(results) > 1:
    out = os.path.join(root, outname or ("RESULTS-%s.json" % tier))
    old = json.load(open(out)) if os.path.exists(out) else {}
    repo_head = subprocess.check_output(["git", "-C", "/repo", "rev-parse", "--short", "HEAD"]).decode().strip()
    for r in results:
        old[r["name"]] = {"property": r["property"], "detected": r["detected"], "repo_head": repo_head,
                          "checks": {k: {"rc": v["rc"], "keys": v["keys"]} for k, v in r["checks"].items()},
                          **({"baseline": r["baseline"], "demo_patched_rc": r["demo_patched_rc"], "demo_clean_rc": r["demo_clean_rc"]} if "baseline" in r else {})}
    json.dump(dict(sorted(old.items())), open(out, "w"), indent=1)
nd = sum(1 for r in results if r["detected"])
print("SUMMARY: %d/%d seeded changes detected (tier=%s)" % (nd, len(results), tier))
sys.exit(0 if nd == len(results) else 1)
