#!/usr/bin/env python3
"""Regenerates /verif/MANIFEST.json from the table below (keeps it schema-valid at every commit)."""
import json, os, sys
HERE = os.path.dirname(os.path.dirname(os.path.abspath(__file__)))
sys.path.insert(0, HERE)
from tools.manifest_table import CHECKS, NOT_BUILT, FIX_COMMITS

props = [json.loads(l) for l in open(os.path.join(HERE, "properties.jsonl"))]
checks = []
na = []
for p in props:
    pid = p["id"]
    if pid in CHECKS:
        c = CHECKS[pid]
        checks.append({
            "property_id": pid,
            "quick_cmd": "./check %s --tier quick" % pid,
            "thorough_cmd": "./check %s --tier thorough" % pid,
            "evidence_file": "/verif/evidence/%s.json" % pid,
            "replay_cmd_template": "./check %s --replay {path}" % pid,
            "engine": "mc-explorer",
            "level_claimed": {"category": "model_checking", "text": c["text"], "design_ref": "DESIGN.md section 3, %s" % pid},
            "level_note": c["note"],
            "technique": c["technique"],
        })
    else:
        na.append({"property_id": pid, "reason": NOT_BUILT.get(pid, "driver not built yet in this round (planned in DESIGN.md section 3); no claim made")})
m = {
    "version": 1,
    "setup_cmd": "cd /verif && ./setup.sh",
    "hooks": {
        "guard": "PYREPSEQ_VERIF",
        "enable": "no source hooks: seams attach from outside by attribute replacement (pyrepseq.nn.Pool, numpy.random.*); ./check exports PYREPSEQ_VERIF=1 and puts $VERIF_REPO first on PYTHONPATH",
        "baseline_off_cmd": "cd /repo && /venv/bin/python -m pytest -ra -q -p no:cacheprovider --timeout=900 --continue-on-collection-errors",
        "source_commits": [],
        "add_only": True,
    },
    "engines": [{"name": "mc-explorer", "path": "/verif/mc", "serves_properties": sorted(CHECKS),
                 "kind_free_text": "hand-written stateless explorer for Python: exhaustive enumeration of bounded input spaces, BFS over API call histories, DFS over RNG/pool-schedule choice points; executed on the real code with a naive reference model as oracle"}],
    "checks": checks,
    "notes": "Every check is bounded exhaustive exploration on the implementation itself (DESIGN.md). fix: commits in /repo: %s. known findings: /verif/known_findings.txt" % (", ".join(FIX_COMMITS) or "none yet"),
    "not_applicable": na,
}
json.dump(m, open(os.path.join(HERE, "MANIFEST.json"), "w"), indent=1)
print("checks:", len(checks), "not_applicable:", len(na))
