FIX_COMMITS = ['e97b536', '3c9d141', 'bfe05b2', 'e1b1b5d', 'd643d40', '6312ee2', '6ff83de', '1b75f22', '311676b', '6e8e836', '13f71f3', 'a4c146a', '9d6fb8c', 'cf6701d', '7f9478f', 'd3532a7', '5c3e82c']
NOT_BUILT = {}
_T = "bounded exhaustive enumeration of input/configuration spaces executed on the real code, compared case-by-case with a naive reference model"
CHECKS = {
 "C01": dict(
   text="Every string list of the stated small-scope spaces (all pairs of every string up to length 7/10 over 2-4 letter alphabets in one call, all lists with repetition, complete CDR3 edit-ball families) is executed on nearest_neighbor and symdel and the triplet set is compared with an independent Wagner-Fischer/trie reference: no missing, spurious, repeated or self pair and exact d within the bounds. Exhaustive within the bounds, silent about longer strings.",
   note="Trusted: CPython, the reference model in /verif/mc/refmodel.py (self-checked against BFS on the one-edit graph at start-up). Bounds in evidence.coverage.spaces.",
   technique=_T),
}

def _c(text, note, technique=_T):
    return dict(text=text, note=note, technique=technique)

_N = "Trusted: CPython/NumPy/pandas as the execution substrate, the naive reference models in /verif/mc/refmodel.py. Bounds and per-class counters in the evidence file."
CHECKS.update({
 "C02": _c("Every sequence of length N over N symbols (all multiplicity patterns in all orders, N<=6/7) under 4 relabellings and 3 containers, all sample pairs up to size 4/5, and all small tables over a collision-prone cell alphabet are run through pc/pc_n/pc_joint and compared exactly with a literal double loop in rationals.", _N),
 "C03": _c("ref=query=whole universe in one call, all (ref,query) list pairs of the bound on symdel/nearest_neighbor/SymdelDB/LookupDB against the reference set, plus every look-up history up to depth 2/3 on live index objects (no-dedup) and a BFS over canonical index states to closure.", _N, "bounded exhaustive input enumeration + BFS over look-up histories on live index objects, reference model as oracle"),
 "C04": _c("hash_based and kdtree on every string up to length 5-7 over three bin-straddling 3-letter alphabets, all lists, radius-boundary family and CDR3 edit-ball families; compared with the absolute reference and with nearest_neighbor.", _N),
 "C06": _c("For every (N,K) of the bound the unbiasedness claim is a polynomial identity in p, decided by enumerating every count vector and comparing M(n) f(n) with the coefficient obtained by explicit polynomial multiplication, exactly on Fraction arrays and to 1e-12 on integer arrays.", _N, "exhaustive enumeration of all count vectors per (N,K) with exact rational arithmetic (completeness of the multinomial family turns the for-all-p claim into a finite check)"),
 "C07": _c("Every interleaving of lengths (all lists up to length 4/5 over 14 strings of length 1..3) and mixed-length universes in three orders on all engines in Hamming mode against the equal-length mismatch reference.", _N),
 "C10": _c("Every logical search call of the bound under all 3 output types x 7 containers (self) / container star (two-collection) on all engines, matrices compared entry by entry and COO coordinates checked for duplicates; 18 invalid-argument classes on every engine must raise.", _N),
 "C11": _c("kdtree on the real multiprocessing.Pool over the full n_cpu x list-size x mode grid, every compression 1..25, and - with nn.Pool replaced by a virtual pool with fork-snapshot semantics - every chunk-to-worker assignment and completion order; max_returns checked per query.", _N + " Real OS timing is not controlled (Pool.map order contract + virtual pool).", "exhaustive configuration grid on the real pool + exhaustive schedule enumeration (choice-point DFS) over a virtual multiprocessing.Pool"),
 "C14": _c("Seven symmetric custom distances x max_edits x 8 max_custom_distance values on every engine over universes and all lists; nearest_neighbor_tcrdist over all small TCR tables x chain x trimming x radii against the same composition written naively (pwseqdist stand-in); both V-gene CSV tables entry by entry.", _N + " pwseqdist is a vendored stand-in (/verif/standins)."),
 "C16": _c("All frequency-of-frequency vectors of the bound through chao1/var_chao1/chao2/var_chao2 against rational closed forms; all 156x156 collection pairs over {a,b,c,None,NaN} in list/tuple/set/Series through the three overlap measures against plain set algebra.", _N),
})

CHECKS.update({
 "C05": _c("Core lists x the full option product (every edge vector from a 5/6-value pool x normalize x pseudocount x 4 metrics x second collections) and extended lists / TCR tables x an option star on pcDelta against an own histogram of own distances; maxseqs under an RNG seam enumerating every subset numpy can draw, with the exact output distribution compared; background-table alignment.", _N + " rapidfuzz cdist threads answered single-threaded in bulk spaces, free-running sub-space included.", "bounded exhaustive input/option enumeration + exhaustive enumeration of RNG answers (choice-point DFS) with exact probabilities"),
 "C08": _c("cdist(U,U) of whole universes for 31 weight triples entry by entry against an own directional weighted Wagner-Fischer, condensed-index formula and squareform round trip on every list up to length 4/5, long-string boundary family (254..400), functional pdist/cdist with an argument-encoding metric.", _N),
 "C09": _c("Anchor x comparison tables over a 9-row alphabet (incl. an allele without CDR2 and empty CDR3s) through all six TcrLevenshtein classes with default and all-distinct prime weights, weight star, label star (shifted/permuted/duplicated/string index), pdist = condensed self-cdist, ValueError for non-tables, caller tables unmodified.", _N + " tidytcells.tr.get_aa_sequence is the trusted source of CDR1/CDR2."),
 "C12": _c("Every string up to length 6-8 over 1-4 letter alphabets through levenshtein_neighbors / hamming_neighbors (all position subsets) / next_nearest_neighbors against the naive one-edit set and BFS ball; every subset of two sequence families through the set utilities; nndist_hamming over all 4-letter strings x all reference subsets.", _N),
 "C13": _c("Every table of 2..4/5 rows over 3 group keys (string and int spellings whose sort order differs from appearance order), one/two features, one/two grouping columns through pc_conditional (4 weightings), pc_grouped_cross, pcDelta_grouped(_cross) incl. bins=0, renyi2/stdrenyi2 (3 bases) against literal compositions of the reference pc/histogram.", _N),
 "C15": _c("Every undirected graph on up to 5/6 labelled nodes in three triplet forms and three label spellings through cc/fastgreedy/multilevel/leiden against an own union-find partition; neighbour lists actually produced by the search functions; hierarchical_clustering on all lists / small TCR tables against scipy on own distances and the single-linkage = components identity.", _N + " SciPy linkage/fcluster and igraph are the base named by the property."),
 "C17": _c("subsample, downsample and powerlaw_sample run under an RNG seam that enumerates every answer numpy.random.choice / rand can give with its exact probability: conservation laws on every answer, exact multivariate-hypergeometric output distribution; powerlaw_mle_alpha on every multiset of <= 4/5 counts against closed forms and an own zeta-likelihood grid.", _N + " Uniform variates come from a 6-point boundary grid.", "exhaustive enumeration of RNG answers (choice-point DFS) with exact rational probabilities + bounded exhaustive input enumeration"),
 "C18": _c("isvalidaa/isvalidcdr3 on all 1555 strings up to length 4 over a 6-letter alphabet and a 43-object zoo; standardize_dataframe on one-cell/one-row/multi-row tables x the 192-option product (or star): input unchanged, shape/index preserved, every cell equal to the single-cell tidytcells call; multimerge against a semantic join.", _N + " tidytcells is the oracle for cell values (property wording)."),
 "C19": _c("Regex language equality on every list of <= 3 equal-length sequences over {C,A,S,-}, consensus, seqlogos counts, rankfrequency Line2D data for every vector/flag combination, label colours under every shuffle permutation (RNG seam), density_scatter multiplicities, similarity_clustermap linkage/cluster/heat-map matrix in dendrogram order; artists read back headless.", _N + " Pixels are not inspected.", "bounded exhaustive input enumeration + exhaustive enumeration of shuffle permutations; artist data read back"),
 "C20": _c("92-operation alphabet covering every public function; reference = each operation alone from the pristine import state (cross-checked with fresh interpreters); every single operation, ordered pairs (quick: those involving a stateful/raising operation; thorough: all 8464), triples over stateful operations and a BFS over canonical module states (globals, __defaults__, class attributes) with argument snapshots and result comparison at every step.", _N + " Third-party hidden state only observable through results.", "explicit-state BFS over canonical module states + exhaustive no-dedup enumeration of call histories (pairs/triples), each replayed on a process forked from the pristine import state"),
})

# ---- additions after the seeded-change campaign (spaces added to the drivers)
_ADD = {
 "C01": " Also: the same search through pandas Series with permuted/shifted labels and NumPy arrays; size-boundary families of 257, 1025 and 65560 strings; universes over multi-byte letters.",
 "C02": " Also: negative integer cells (colliding hashes), the gap_token option, the very same object as both samples.",
 "C03": " Also: the very same list object as both collections, progress=True, per-look-up max_edits in LookupDB histories; index state changes are explored, only answers are judged.",
 "C04": " Also: size-boundary families of 255..2049 (thorough 65560) strings and every ordered pair of equal-length 4-letter strings as a 2-element collection.",
 "C05": " Also: default bins on families with distances of exactly 22..26, the same object as both collections.",
 "C06": " Also: a magnitude boundary family (counts at 2^8, 55108/9, 2^16, 2^21, 3e6, 2^31-1) comparing the integer path with the exact Fraction path, and variable-width string labels in the two-sample form.",
 "C07": " Also: equal-length neighbours of 127..300 residues mixed with short strings, same-object two-collection form.",
 "C08": " Also: all metric objects constructed before any is used.",
 "C09": " Also: caller columns named CDR1A/CDR2A/CDR1B/CDR2B, CDR3s of 24..80 residues, the same table object on both sides.",
 "C10": " Also: callables returning non-integer distances under every output type, kdtree max_returns (asymmetric results) in matrix form.",
 "C11": " Also: sequences of 127..256 residues x compression, max_returns with a callable that does not rank like Levenshtein x compression.",
 "C12": " Also: mixed-length references for nndist_hamming, hub sequences with more than 255 distance-1 partners.",
 "C13": " Also: ndarray group_weights (value and purity).",
 "C14": " Also: library function objects as custom_distance, look-up histories with changing distance functions on live index objects, tcrdist_kwargs call sequences.",
 "C15": " Also: repeated node labels, linkage_kws={}.",
 "C16": " Also: a magnitude boundary family for f1/f2 as int64 arrays.",
 "C17": " Also: tables with duplicated index labels, count vectors with 255..300 (thorough 65537) categories.",
 "C18": " Also: newline and non-ASCII letters, CDR3 cells ending in C, the same text in a TR and an MHC column.",
 "C19": " Also: zeros in count vectors, half-integer and negative scatter grids, rows whose residues can shift across the chain boundary.",
 "C20": " Also: five long-lived fixtures (metrics, SymdelDB, LookupDB) that exist before every history; 111 operations.",
}
for _k, _v in _ADD.items():
    CHECKS[_k]["text"] = CHECKS[_k]["text"] + _v
CHECKS["C20"]["text"] = CHECKS["C20"]["text"].replace("92-operation alphabet", "111-operation alphabet").replace("all 8464", "all 12321")
