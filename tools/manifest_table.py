FIX_COMMITS = []
NOT_BUILT = {}
_T = "bounded exhaustive enumeration of input/configuration spaces executed on the real code, compared case-by-case with a naive reference model"
CHECKS = {
 "C01": dict(
   text="Every string list of the stated small-scope spaces (all pairs of every string up to length 7/10 over 2-4 letter alphabets in one call, all lists with repetition, complete CDR3 edit-ball families) is executed on nearest_neighbor and symdel and the triplet set is compared with an independent Wagner-Fischer/trie reference: no missing, spurious, repeated or self pair and exact d within the bounds. Exhaustive within the bounds, silent about longer strings.",
   note="Trusted: CPython, the reference model in /verif/mc/refmodel.py (self-checked against BFS on the one-edit graph at start-up). Bounds in evidence.coverage.spaces.",
   technique=_T),
}
