FIX_COMMITS = ['e97b536', '3c9d141', 'bfe05b2', 'e1b1b5d', 'd643d40', '6312ee2', '6ff83de', '1b75f22', '311676b', '6e8e836']
NOT_BUILT = {}
_T = "bounded exhaustive enumeration of input/configuration spaces executed on the real code, compared case-by-case with a naive reference model"
CHECKS = {
 "C01": dict(
   text="Every string list of the stated small-scope spaces (all pairs of every string up to length 7/10 over 2-4 letter alphabets in one call, all lists with repetition, complete CDR3 edit-ball families) is executed on nearest_neighbor and symdel and the triplet set is compared with an independent Wagner-Fischer/trie reference: no missing, spurious, repeated or self pair and exact d within the bounds. Exhaustive within the bounds, silent about longer strings.",
   note="Trusted: CPython, the reference model in /verif/mc/refmodel.py (self-checked against BFS on the one-edit graph at start-up). Bounds in evidence.coverage.spaces.",
   technique=_T),
}

def _c(text, note, technique=_T):
    return dict(text=text, note=note, technique=technique)

_N = "Trusted: CPython/NumPy/pandas as the execution substrate, the naive reference models in /verif/mc/refmodel.py. Bounds and per-class counters in the evidence file."
CHECKS.update({
 "C02": _c("Every sequence of length N over N symbols (all multiplicity patterns in all orders, N<=6/7) under 4 relabellings and 3 containers, all sample pairs up to size 4/5, and all small tables over a collision-prone cell alphabet are run through pc/pc_n/pc_joint and compared exactly with a literal double loop in rationals.", _N),
 "C03": _c("ref=query=whole universe in one call, all (ref,query) list pairs of the bound on symdel/nearest_neighbor/SymdelDB/LookupDB against the reference set, plus every look-up history up to depth 2/3 on live index objects (no-dedup) and a BFS over canonical index states to closure.", _N, "bounded exhaustive input enumeration + BFS over look-up histories on live index objects, reference model as oracle"),
 "C04": _c("hash_based and kdtree on every string up to length 5-7 over three bin-straddling 3-letter alphabets, all lists, radius-boundary family and CDR3 edit-ball families; compared with the absolute reference and with nearest_neighbor.", _N),
 "C06": _c("For every (N,K) of the bound the unbiasedness claim is a polynomial identity in p, decided by enumerating every count vector and comparing M(n) f(n) with the coefficient obtained by explicit polynomial multiplication, exactly on Fraction arrays and to 1e-12 on integer arrays.", _N, "exhaustive enumeration of all count vectors per (N,K) with exact rational arithmetic (completeness of the multinomial family turns the for-all-p claim into a finite check)"),
 "C07": _c("Every interleaving of lengths (all lists up to length 4/5 over 14 strings of length 1..3) and mixed-length universes in three orders on all engines in Hamming mode against the equal-length mismatch reference.", _N),
 "C10": _c("Every logical search call of the bound under all 3 output types x 7 containers (self) / container star (two-collection) on all engines, matrices compared entry by entry and COO coordinates checked for duplicates; 18 invalid-argument classes on every engine must raise.", _N),
 "C11": _c("kdtree on the real multiprocessing.Pool over the full n_cpu x list-size x mode grid, every compression 1..25, and - with nn.Pool replaced by a virtual pool with fork-snapshot semantics - every chunk-to-worker assignment and completion order; max_returns checked per query.", _N + " Real OS timing is not controlled (Pool.map order contract + virtual pool).", "exhaustive configuration grid on the real pool + exhaustive schedule enumeration (choice-point DFS) over a virtual multiprocessing.Pool"),
 "C14": _c("Seven symmetric custom distances x max_edits x 8 max_custom_distance values on every engine over universes and all lists; nearest_neighbor_tcrdist over all small TCR tables x chain x trimming x radii against the same composition written naively (pwseqdist stand-in); both V-gene CSV tables entry by entry.", _N + " pwseqdist is a vendored stand-in (/verif/standins)."),
 "C16": _c("All frequency-of-frequency vectors of the bound through chao1/var_chao1/chao2/var_chao2 against rational closed forms; all 156x156 collection pairs over {a,b,c,None,NaN} in list/tuple/set/Series through the three overlap measures against plain set algebra.", _N),
})
