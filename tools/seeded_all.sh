#!/bin/bash
# runs the quick check of every seeded change in three interleaved streams and merges the results into seeded/RESULTS-quick.json
cd "$(dirname "$0")/.."
for i in 0 1 2; do
  tools/seeded.py --part $i/3 --out RESULTS-quick.part$i.json > /dev/null 2>&1 &
done
wait
python3 - <<'PY'
import json, glob, os
root = "seeded"
merged = {}
for f in sorted(glob.glob(os.path.join(root, "RESULTS-quick.part*.json"))):
    merged.update(json.load(open(f)))
    os.remove(f)
json.dump(dict(sorted(merged.items())), open(os.path.join(root, "RESULTS-quick.json"), "w"), indent=1)
nd = sum(1 for r in merged.values() if r["detected"])
print("SUMMARY: %d/%d seeded changes detected by the quick tier" % (nd, len(merged)))
for n, r in sorted(merged.items()):
    if not r["detected"]:
        print("  not detected:", n, r.get("error", ""))
PY
