#!/bin/bash
# usage: tools/run_all.sh [quick|thorough] [seed]   -- runs every claimed check, prints rc and wall time
TIER="${1:-quick}"; SEED="${2:-0}"
cd "$(dirname "$0")/.."
fail=0
for id in $(python3 -c "import json;print(' '.join(c['property_id'] for c in json.load(open('MANIFEST.json'))['checks']))"); do
  s=$(date +%s.%N)
  out=$(VERIF_SEED=$SEED ./check $id --tier $TIER 2>&1); rc=$?
  e=$(date +%s.%N)
  printf "%s tier=%s seed=%s rc=%d wall=%.1fs %s\n" $id $TIER $SEED $rc $(echo "$e - $s" | bc) "$(echo "$out" | grep -E "VIOLATION|HARNESS-ERROR|KNOWN-FINDING" | head -3 | tr '\n' ' ')"
  [ $rc -ne 0 ] && fail=1
done
exit $fail
