#!/usr/bin/env python3
"""tools/seed_prompts.py <round>: (re)create /tmp/seedtools (baseline helper, property texts, one prompt per property) and one
scratch worktree /tmp/wt<round>_<pid> per property for a round of the seeded-change campaign (DESIGN.md section 6).
The sub-agents get ONLY the prompt file: property text, what has been tried, their worktree and output directory."""
import glob, json, os, shutil, subprocess, sys

HERE = os.path.dirname(os.path.dirname(os.path.abspath(__file__)))
rnd = sys.argv[1]
only = sys.argv[2:]
T = '''You are helping to evaluate a verification harness for the open-source Python library pyrepseq (immune-repertoire analysis: nearest-neighbour search, coincidence statistics, metrics, plotting). Your job is to play the role of a developer who introduces a subtle, realistic bug.

You have your own scratch git worktree of the library at {wt} (a checkout of the current HEAD). Work ONLY inside {wt} and your output directory {out}. Do NOT read or touch /repo, /verif, /root/.claude or /root/.vp (except that you may run the helper script mentioned below) - your work must be independent of anything there. Never use `git stash` (the stash is shared between worktrees).

The semantic property the harness is supposed to protect:

  [{pid}] {title}
  STATEMENT: {statement}
  QUANTIFIED OVER: {quantifier}

TASK: produce {n} DIFFERENT small source changes (each independent, each applied to a clean checkout) to the library under {wt}/pyrepseq that BREAK this property, while
  (a) the code still imports and the existing test-suite still passes exactly as before. Check with:  /tmp/seedtools/baseline.sh {wt}   (it must print "baseline: 71/71 stable tests pass"; 5 other tests fail already on the clean tree for lack of network/optional packages - ignore those), and
  (b) the breakage needs something SPECIFIC to manifest - e.g. an unusual but legal input (a particular length mix, duplicates, an empty string, a particular option combination, larger max_edits, non-default index labels, n_cpu > 1, a particular sequence of calls, two cooperating sites that each look fine alone) - NOT something that ordinary use or the existing tests would expose at once. Prefer the kind of slip a real developer makes when refactoring/optimising (off-by-one in a range, wrong variable reused, a filter applied too early, a cache/scratch object hoisted to module scope, swapped arguments, < vs <=, wrong default, dropped copy, wrong axis), placed in the code paths this property is about.
For each change write into {out}/<k>/ (k = 1..{n}):
  - patch.diff : unified diff produced with `git -C {wt} diff` (so it applies with `git apply` from the repository root),
  - demo.py : a small standalone program that exits 0 on the clean tree and exits non-zero (assertion failure) with the patch applied; run it as `cd {wt} && PYTHONPATH={wt} MPLBACKEND=Agg /venv/bin/python {out}/<k>/demo.py`. Show that it really fails with the patch and passes without.
  - note.txt : 3-6 lines: what you changed, why it breaks the property, and exactly what is needed for it to manifest.
After producing each patch, restore the worktree with `git -C {wt} checkout -- .` so the next change starts clean, and leave the worktree clean at the end.
Use /venv/bin/python (it has numpy, pandas, scipy, rapidfuzz, etc.). There is no network. Keep each patch small (a few lines). Do not modify the tests. Finish by replying with a short summary of the {n} changes (file, what, what it needs to manifest) and confirmation that baseline.sh printed 71/71 for each.'''

CAUGHT6 = ''' Also caught since the last round: differently spelled missing cells (None / '' / NaN) between two tables; metric objects whose truth value is False; labels in small integer dtypes; anagram families and clones next to transposed variants; None / 0 / False option values forwarded to callables; one V gene with several alleles; radii one ulp below an attained real-valued distance (isclose-style tolerances); stray max_custom_distance without a custom distance on every engine; isolated sequences with n_cpu > 1; references shorter or longer than the query; pseudocount with singleton groups; ward / centroid / weighted linkage; heavy-tailed exponents close to 1; repeated join keys and indexes named like the key column; (n x 1) column input; stale per-object radius on a reused index object; falsy max_custom_distance (0).'''
CAUGHT = '''The harness is also known to catch, anywhere in this code base: changed kdtree ball radius (incl. float-rounding variants); any cache (module-level, per-object, lru_cache, memo by `is`) keyed incompletely or returning shared objects; reused worker pools; label-vs-position indexing of pandas objects (Series, tuples of Series, DataFrames, duplicated labels); `is`-identity shortcuts; sampling with replacement, biased or short draws (every answer of numpy.random.choice / randint / rand / shuffle is enumerated); truncation/rounding of non-integer distances; integer overflow/wrap-around at 2^7, 2^8, 2^16, ~55109, ~2.1e6, 2^31, 2^53 for counts, sizes, string lengths, weights and neighbour counts (collections of 128-257, 1001, 1023-1025, 2049, 3001 rows, 10001, 65560 and strings of 127-400 residues are exercised); bytes-vs-characters, NUL, separator characters (| _ . space), non-ASCII letters and non-amino-acid symbols (also first occurring late in a long list); hash collisions; every documented option alone and the interactions normalize x pseudocount, bins=0 x maxseqs, max_returns x output type, max_returns x callable distance, max_returns call followed by a default call, precision x enforce_functional, how=left/inner/outer over 2-4 tables, progress=True x >1000 queries; partial or empty option dictionaries; in-place modification of any argument (lists, arrays, dicts, sets, frames, colormap objects); scribbling on returned objects; shared class-level state; one-shot iterators, dicts, Counters, Index, categorical, bool, tuple-valued, mixed-type and str inputs; falsy column labels; mixed-length and empty references; zeros/unsigned/NaN/missing values in count vectors and feature columns; float labels; repeated or missing node labels; self matches; collections of equal-length sequences, of sequences sharing prefix+suffix, mutational scans and big clones; aspect ratios up to 1x300; asymmetric (ins != del) metrics in every two-collection path and with any (ins,del,sub) in {1,2,3}^3; metric classes with **options; a container re-used with new contents; aborted earlier calls; near-miss spellings of enumerated string options; callables that return int for some pairs and float for others; axes that are not the current axes.'''

AIM = {
 "7": '''Aim for changes that are HARDER to catch than all of the above but still REALISTIC (a slip or "optimisation" a reviewer could wave through) and that genuinely violate the property statement on inputs the statement covers. Directions that have NOT been tried much: the arguments this library passes to THIRD-PARTY calls (rapidfuzz score_cutoff / score_hint / processor, scipy linkage / fcluster / squareform options, pandas groupby sort / dropna / observed, merge / concat / drop_duplicates / value_counts flags, numpy unique / histogram / argsort kind / searchsorted side) where a different flag only matters for particular data (ties, missing keys, unsorted or duplicated keys, values exactly on an edge, object vs string dtype); results that silently depend on set / dict iteration order or on an unstable sort among ties; a loop that stops one element early only when the number of elements is even / odd or a multiple of a chunk size; state kept on an OBJECT (not a module) between two method calls; an input that is converted once and then used in both its converted and unconverted form. Silent wrong results only (no exceptions), no thresholds at sizes above two thousand, and nothing that needs a narrower integer dtype than int64 for counts.''',
 "6": '''Aim for changes that are HARDER to catch than all of the above but still REALISTIC (a slip or "optimisation" a reviewer could wave through) and that genuinely violate the property statement on inputs the statement covers. Ideas that have NOT been tried much: a change in a SHARED HELPER that is right for most callers but wrong for one public function of this property; two cooperating edits in different functions; a wrong result only when two particular arguments are BOTH non-default; dependence on the ORDER of rows / elements / keyword arguments where the property promises order-independence; a result that is wrong only when a group, bin, cluster or chain is a singleton or when two values tie exactly; numerically plausible results (right to 3 digits) from a reformulated formula that is not algebraically identical; an early-exit "fast path" whose guard is slightly too wide. Silent wrong results only (no exceptions), no thresholds at sizes above a few thousand.''',
}

os.makedirs("/tmp/seedtools/prompts%s" % rnd, exist_ok=True)
shutil.copy(os.path.join(HERE, "tools", "baseline.sh"), "/tmp/seedtools/baseline.sh")
props = {}
for l in open(os.path.join(HERE, "properties.jsonl")):
    p = json.loads(l)
    props[p["id"]] = dict(title=p["title"], statement=p["statement"], quantifier=p["quantifier"]["text"])
subprocess.run(["git", "-C", "/repo", "worktree", "prune"])
for pid, p in props.items():
    if only and pid not in only:
        continue
    wt, out = "/tmp/wt%s_%s" % (rnd, pid), "/tmp/seed%s_%s" % (rnd, pid)
    if not os.path.exists(wt):
        subprocess.run(["git", "-C", "/repo", "worktree", "add", "-q", "--detach", wt, "HEAD"], check=True)
    tried = []
    for d in sorted(glob.glob(os.path.join(HERE, "seeded", pid + "-*"))):
        if os.path.exists(d + "/note.txt"):
            tried.append("  * " + open(d + "/note.txt").read().strip().replace("\n", " ")[:230])
    extra = "\n\nALREADY TRIED by other people for this property (the harness catches ALL of these - do NOT repeat them or close variants; pick a different site and a different mechanism):\n%s\n%s\n%s\n" % (
        "\n".join(tried) if tried else "  (none yet)", CAUGHT + (CAUGHT6 if rnd >= "7" else ""), AIM.get(rnd, AIM["6"]))
    open("/tmp/seedtools/prompts%s/%s.txt" % (rnd, pid), "w").write(T.format(wt=wt, out=out, pid=pid, n=2, **p) + extra)
print("prompts in /tmp/seedtools/prompts%s:" % rnd, len(os.listdir("/tmp/seedtools/prompts%s" % rnd)))
