#!/usr/bin/env python3
"""tools/import_seed.py <srcdir-prefix> <pid> <first-number>: copy <prefix>_<pid>/<k>/ (k=1,2,..) to seeded/<pid>-<n>/ with a meta.json"""
import json, os, shutil, sys
prefix, pid, first = sys.argv[1], sys.argv[2], int(sys.argv[3])
HERE = os.path.dirname(os.path.dirname(os.path.abspath(__file__)))
k = 1
while os.path.exists("%s_%s/%d/patch.diff" % (prefix, pid, k)):
    src = "%s_%s/%d" % (prefix, pid, k)
    name = "%s-%d" % (pid, first + k - 1)
    dst = os.path.join(HERE, "seeded", name)
    os.makedirs(dst, exist_ok=True)
    for f in os.listdir(src):
        p = os.path.join(src, f)
        if os.path.isfile(p) and os.path.getsize(p) < 200000:
            shutil.copy(p, os.path.join(dst, f))
        elif os.path.isdir(p) and f in ("pwseqdist", "standin"):
            shutil.copytree(p, os.path.join(dst, f), dirs_exist_ok=True)
    note = open(os.path.join(dst, "note.txt")).read() if os.path.exists(os.path.join(dst, "note.txt")) else ""
    json.dump({"property": pid, "author": "independent sub-agent (given only the property text, a list of already-tried changes and a scratch worktree)",
               "needs": note.strip(), "checks": [pid],
               "ran": "tools/seeded.py --full %s (baseline 71/71 on the patched tree, demo fails patched / passes clean, ./check %s with VERIF_REPO=<patched scratch worktree>)" % (name, pid)},
              open(os.path.join(dst, "meta.json"), "w"), indent=1)
    print("imported", name)
    k += 1
