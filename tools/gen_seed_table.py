#!/usr/bin/env python3
"""Writes seeded/TABLE.md (which check catches which seeded change) from seeded/*/meta.json and seeded/RESULTS-quick.json."""
import json, os, glob
HERE = os.path.dirname(os.path.dirname(os.path.abspath(__file__)))
res = json.load(open(os.path.join(HERE, "seeded", "RESULTS-quick.json"))) if os.path.exists(os.path.join(HERE, "seeded", "RESULTS-quick.json")) else {}
rest = json.load(open(os.path.join(HERE, "seeded", "RESULTS-thorough.json"))) if os.path.exists(os.path.join(HERE, "seeded", "RESULTS-thorough.json")) else {}
rows = []
for d in sorted(glob.glob(os.path.join(HERE, "seeded", "C*"))):
    name = os.path.basename(d)
    m = json.load(open(os.path.join(d, "meta.json")))
    note = " ".join(m["needs"].split())
    first = note.split(". ")[0][:160]
    r = res.get(name, {})
    tonly = False
    if not r.get("detected") and rest.get(name, {}).get("detected"):
        r, tonly = rest[name], True
    caught = "; ".join("%s: %s" % (k, ", ".join(v["keys"][:2])) for k, v in r.get("checks", {}).items() if v["rc"] == 1) or "-"
    rows.append("| %s | %s | %s | %s | %s |" % (name, m["property"], ("thorough tier only" if tonly else "yes") if r.get("detected") else ("no" if r else "?"), caught[:170], first))
out = ["| change | property | caught (quick) | by check: first violation keys | what was changed |", "|---|---|---|---|---|"] + rows
open(os.path.join(HERE, "seeded", "TABLE.md"), "w").write("\n".join(out) + "\n")
nd = sum(1 for n, r in res.items() if r.get("detected") and os.path.isdir(os.path.join(HERE, "seeded", n)))
print("rows", len(rows), "detected", nd)
