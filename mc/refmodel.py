"""Reference models: deliberately naive, no rapidfuzz / Levenshtein / scipy.spatial / pyrepseq."""
import functools
import math
from fractions import Fraction

INF = float("inf")


# ---------------------------------------------------------------- edit distances
@functools.lru_cache(maxsize=1 << 20)
def ref_lev(a, b):
    """Textbook Wagner-Fischer."""
    prev = list(range(len(b) + 1))
    for i, ca in enumerate(a, 1):
        cur = [i]
        for j, cb in enumerate(b, 1):
            cur.append(min(prev[j] + 1, cur[j - 1] + 1, prev[j - 1] + (ca != cb)))
        prev = cur
    return prev[-1]


def ref_wlev(a, b, ins=1, dele=1, sub=1):
    """Minimal total weight of insertions/deletions/substitutions turning a into b (directional)."""
    prev = [j * ins for j in range(len(b) + 1)]
    for i, ca in enumerate(a, 1):
        cur = [i * dele]
        for j, cb in enumerate(b, 1):
            cur.append(min(prev[j] + dele, cur[j - 1] + ins, prev[j - 1] + (0 if ca == cb else sub)))
        prev = cur
    return prev[-1]


def ref_hamming(a, b):
    if len(a) != len(b):
        return INF
    return sum(1 for x, y in zip(a, b) if x != y)


def naive_one_edit(x, alphabet):
    """Every string at Levenshtein distance exactly 1 from x over the alphabet (as a set)."""
    out = set()
    for i in range(len(x)):
        out.add(x[:i] + x[i + 1:])
        for c in alphabet:
            out.add(x[:i] + c + x[i + 1:])
    for i in range(len(x) + 1):
        for c in alphabet:
            out.add(x[:i] + c + x[i:])
    out.discard(x)
    return out


def naive_one_sub(x, alphabet, positions=None):
    out = set()
    for i in (range(len(x)) if positions is None else positions):
        for c in alphabet:
            if c != x[i]:
                out.add(x[:i] + c + x[i + 1:])
    return out


def ref_ball(x, alphabet, k, step=naive_one_edit):
    """dict string -> distance for everything within k steps (BFS)."""
    dist = {x: 0}
    frontier = [x]
    for d in range(1, k + 1):
        nxt = []
        for y in frontier:
            for z in step(y, alphabet):
                if z not in dist:
                    dist[z] = d
                    nxt.append(z)
        frontier = nxt
    return dist


class Trie:
    __slots__ = ("children", "ids")

    def __init__(self):
        self.children = {}
        self.ids = []


def build_trie(seqs):
    root = Trie()
    for i, s in enumerate(seqs):
        node = root
        for ch in s:
            nxt = node.children.get(ch)
            if nxt is None:
                nxt = node.children[ch] = Trie()
            node = nxt
        node.ids.append(i)
    return root


def within_k(query, root, k):
    """[(position, distance)] of all strings in the trie within Levenshtein distance k of query.
    One Wagner-Fischer row per trie node; a subtree is left when every entry of its row exceeds k
    (row minima never decrease along a path)."""
    out = []
    n = len(query)
    row0 = list(range(n + 1))
    stack = [(root, row0)]
    while stack:
        node, row = stack.pop()
        if node.ids and row[n] <= k:
            d = row[n]
            for i in node.ids:
                out.append((i, d))
        for ch, child in node.children.items():
            cur = [row[0] + 1]
            for j in range(1, n + 1):
                cur.append(min(row[j] + 1, cur[j - 1] + 1, row[j - 1] + (query[j - 1] != ch)))
            if min(cur) <= k:
                stack.append((child, cur))
    return out


def neighbors_within(seqs, k, queries=None, dist="lev"):
    """Expected triplets {(q, r, d)}: q position in queries (default: seqs itself, then q != r),
    r position in seqs, d <= k.  dist in {"lev", "hamming"}."""
    self_mode = queries is None
    if self_mode:
        queries = seqs
    out = set()
    if dist == "lev":
        root = build_trie(seqs)
        for qi, q in enumerate(queries):
            for ri, d in within_k(q, root, k):
                if self_mode and ri == qi:
                    continue
                out.add((qi, ri, d))
    elif len(seqs) * len(queries) > 4000000:
        # large collections: Hamming neighbours are Levenshtein neighbours of equal length (ham >= lev), so the trie search
        # over-approximates the candidates and the Hamming distance is then evaluated literally
        root = build_trie(seqs)
        for qi, q in enumerate(queries):
            for ri, _ in within_k(q, root, k):
                if self_mode and ri == qi:
                    continue
                d = ref_hamming(q, seqs[ri])
                if d <= k:
                    out.add((qi, ri, d))
    else:
        bylen = {}
        for ri, r in enumerate(seqs):
            bylen.setdefault(len(r), []).append(ri)
        for qi, q in enumerate(queries):
            for ri in bylen.get(len(q), ()):
                if self_mode and ri == qi:
                    continue
                d = ref_hamming(q, seqs[ri])
                if d <= k:
                    out.add((qi, ri, d))
    return out


def selfcheck_edit(alphabet="AC", L=4, k=3):
    """Cross-check ref_lev, the trie search and the BFS ball against each other on a small universe."""
    import itertools
    U = ["".join(t) for n in range(L + 1) for t in itertools.product(alphabet, repeat=n)]
    root = build_trie(U)
    for a in U:
        ball = ref_ball(a, alphabet, k)
        tri = dict(within_k(a, root, k))
        for i, b in enumerate(U):
            d = ref_lev(a, b)
            assert d == ref_wlev(a, b), (a, b)
            if d <= k:
                assert ball.get(b) == d and tri.get(i) == d, (a, b, d, ball.get(b), tri.get(i))
            else:
                assert i not in tri and (b not in ball), (a, b, d)
    return len(U)


# ---------------------------------------------------------------- coincidence statistics
def ref_pc(xs):
    """#{(i,j): i != j, xs[i] == xs[j]} / (N (N-1)) as a Fraction (literal double loop)."""
    N = len(xs)
    c = 0
    for i in range(N):
        for j in range(N):
            if i != j and xs[i] == xs[j]:
                c += 1
    return Fraction(c, N * (N - 1))


def ref_pc2(xs, ys):
    c = 0
    for x in xs:
        for y in ys:
            if x == y:
                c += 1
    return Fraction(c, len(xs) * len(ys))


def ref_pc_counts(ns):
    N = sum(ns)
    return Fraction(sum(n * (n - 1) for n in ns), N * (N - 1))


def ref_hist(values, edges):
    """numpy.histogram convention: half-open bins, last bin closed."""
    counts = [0] * (len(edges) - 1)
    nb = len(edges) - 1
    for v in values:
        for b in range(nb):
            lo, hi = edges[b], edges[b + 1]
            if (lo <= v < hi) or (b == nb - 1 and v == hi):
                counts[b] += 1
                break
    return counts


# ---------------------------------------------------------------- union-find
def ref_components(n, edges):
    parent = list(range(n))

    def find(x):
        while parent[x] != x:
            parent[x] = parent[parent[x]]
            x = parent[x]
        return x
    for a, b in edges:
        ra, rb = find(a), find(b)
        if ra != rb:
            parent[ra] = rb
    comp = {}
    for i in range(n):
        comp.setdefault(find(i), []).append(i)
    return sorted(tuple(v) for v in comp.values())


def partition_of(labels):
    """Canonical partition (sorted tuple of sorted tuples of positions) from a label vector."""
    d = {}
    for i, l in enumerate(labels):
        d.setdefault(l, []).append(i)
    return sorted(tuple(v) for v in d.values())


def feq(a, b, rel=1e-12, abs_=1e-12):
    """NaN-equal, inf-equal float comparison with tolerance."""
    try:
        a = float(a)
        b = float(b)
    except (TypeError, ValueError):
        return False
    if math.isnan(a) or math.isnan(b):
        return math.isnan(a) and math.isnan(b)
    if math.isinf(a) or math.isinf(b):
        return a == b
    return abs(a - b) <= max(abs_, rel * max(abs(a), abs(b)))
