"""Environment seams owned by the explorer: choice-point DFS, NumPy global RNG, multiprocessing.Pool."""
import contextlib
import copy
import itertools
import math
import types
from fractions import Fraction

from mc.core import HarnessError


# --------------------------------------------------------------------------- choice-point DFS
class Chooser:
    """Replays `prefix`, then answers 0 at every later choice point."""

    def __init__(self, prefix=()):
        self.prefix = list(prefix)
        self.trace = []          # (n, label, choice)

    def choose(self, n, label=""):
        if n <= 0:
            raise HarnessError("choice point with no alternative: %s" % label)
        i = len(self.trace)
        c = self.prefix[i] if i < len(self.prefix) else 0
        if c >= n:
            raise HarnessError("replay divergence at choice %d (%s): recorded %d, only %d alternatives" % (i, label, c, n))
        self.trace.append((n, label, c))
        return c

    @property
    def choices(self):
        return tuple(c for _, _, c in self.trace)


def explore_choices(run, cap=None):
    """Enumerate every choice vector of run(chooser) (depth-first, all alternatives at every point).
    Yields (choices, observation).  `cap` bounds the number of executions (reported by the caller)."""
    stack = [[]]
    n = 0
    while stack:
        prefix = stack.pop()
        ch = Chooser(prefix)
        obs = run(ch)
        n += 1
        yield ch.choices, obs
        if cap is not None and n >= cap:
            return
        for i in range(len(ch.trace) - 1, len(prefix) - 1, -1):
            for alt in range(ch.trace[i][0] - 1, 0, -1):
                stack.append(list(ch.choices[:i]) + [alt])


# --------------------------------------------------------------------------- NumPy RNG seam
UNIFORM_GRID = (0.0, 2.0 ** -53, 0.25, 0.5, 0.75, 1.0 - 2.0 ** -53)
ORDERED_CAP = 720


class RngSeam:
    """Answers numpy.random.{choice,shuffle,permutation,rand,random,random_sample} from the chooser.
    `prob` is the exact probability of the answers given so far (uniform grid answers excluded)."""

    def __init__(self, chooser):
        self.ch = chooser
        self.prob = Fraction(1)
        self.log = []

    # -- numpy.random.choice ------------------------------------------------
    def choice(self, a, size=None, replace=True, p=None):
        import numpy as np
        if isinstance(a, (int, np.integer)):
            pop = np.arange(int(a))
        else:
            pop = np.asarray(a)
            if pop.ndim != 1:
                raise ValueError("a must be 1-dimensional")
        N = len(pop)
        scalar = size is None
        k = 1 if scalar else int(np.prod(size))
        if N == 0 and k > 0:
            raise ValueError("a cannot be empty unless no samples are taken")
        self.log.append(("choice", N, k, bool(replace), None if p is None else tuple(p)))
        if p is not None:
            w = [Fraction(x).limit_denominator(10 ** 9) for x in p]
            tot = sum(w)
            w = [x / tot for x in w]
        else:
            w = [Fraction(1, N)] * N if N else []
        if replace:
            idx = []
            for t in range(k):
                support = [i for i in range(N) if w[i] > 0]
                c = self.ch.choose(len(support), "choice-with-replacement[%d]" % t)
                idx.append(support[c])
                self.prob *= w[support[c]]
        else:
            if k > N:
                raise ValueError("Cannot take a larger sample than population when 'replace=False'")
            if p is not None:
                idx = []
                rem = list(range(N))
                for t in range(k):
                    support = [i for i in rem if w[i] > 0]
                    tot = sum(w[i] for i in support)
                    c = self.ch.choose(len(support), "weighted-choice[%d]" % t)
                    idx.append(support[c])
                    self.prob *= w[support[c]] / tot
                    rem.remove(support[c])
            elif math.perm(N, k) <= ORDERED_CAP:
                # every ordered sample, each with probability (N-k)!/N!
                idx = []
                rem = list(range(N))
                for t in range(k):
                    c = self.ch.choose(len(rem), "choice-without-replacement[%d]" % t)
                    idx.append(rem.pop(c))
                self.prob *= Fraction(1, math.perm(N, k))
            else:
                # every unordered subset (probability 1/C(N,k)) in ascending and descending order
                nsub = math.comb(N, k)
                c = self.ch.choose(nsub, "subset")
                sub = _nth_combination(N, k, c)
                o = self.ch.choose(2, "subset-order")
                idx = list(sub) if o == 0 else list(sub)[::-1]
                self.prob *= Fraction(1, 2 * nsub)  # each subset with probability 1/nsub, split evenly over the two representative orders
        out = pop[idx]
        if scalar:
            return out[0]
        return out.reshape(size) if not isinstance(size, (int, np.integer)) else out

    # -- shuffle / permutation ---------------------------------------------
    def _perm(self, n):
        if n > getattr(self, "perm_bound", 6):
            raise HarnessError("RNG seam: permutation of %d elements is beyond the enumerated bound (%d)" % (n, getattr(self, "perm_bound", 6)))
        rem = list(range(n))
        out = []
        for t in range(n):
            c = self.ch.choose(len(rem), "permutation[%d]" % t)
            out.append(rem.pop(c))
        self.prob *= Fraction(1, math.factorial(n))
        return out

    def shuffle(self, x):
        n = len(x)
        self.log.append(("shuffle", n))
        order = self._perm(n)
        vals = [copy.copy(x[i]) for i in range(n)]
        for pos, src in enumerate(order):
            x[pos] = vals[src]

    def permutation(self, x):
        import numpy as np
        arr = np.arange(x) if isinstance(x, (int, np.integer)) else np.array(x)
        self.log.append(("permutation", len(arr)))
        return arr[self._perm(len(arr))]

    # -- uniforms ------------------------------------------------------------
    def _uniform(self, shape):
        import numpy as np
        n = int(np.prod(shape)) if shape else 1
        if n > 4:
            raise HarnessError("RNG seam: %d uniforms requested, bound is 4" % n)
        vals = [UNIFORM_GRID[self.ch.choose(len(UNIFORM_GRID), "uniform[%d]" % t)] for t in range(n)]
        self.log.append(("uniform", n))
        return np.array(vals).reshape(shape) if shape else vals[0]

    def rand(self, *shape):
        return self._uniform(tuple(int(s) for s in shape))

    def random_sample(self, size=None):
        import numpy as np
        if size is None:
            return self._uniform(())
        return self._uniform((size,) if isinstance(size, (int, np.integer)) else tuple(size))

    random = random_sample

    # -- integers --------------------------------------------------------------
    def randint(self, low, high=None, size=None, dtype=int):
        import numpy as np
        if high is None:
            low, high = 0, low
        low, high = int(low), int(high)
        if high <= low:
            raise ValueError("low >= high")
        n = 1 if size is None else int(np.prod(size))
        if n > 4:
            raise HarnessError("RNG seam: %d random integers requested, bound is 4" % n)
        self.calls = getattr(self, "calls", 0) + 1
        if self.calls > 12:
            raise HarnessError("RNG seam: more than 12 integer draws in one execution (rejection loop?) - horizon reached")
        self.log.append(("randint", low, high, n))
        vals = []
        for t in range(n):
            c = self.ch.choose(high - low, "randint[%d]" % t)
            vals.append(low + c)
            self.prob *= Fraction(1, high - low)
        if size is None:
            return vals[0]
        return np.array(vals, dtype=dtype).reshape(size)


def _nth_combination(N, k, index):
    """index-th k-subset of range(N) in lexicographic order."""
    out = []
    start = 0
    for remaining in range(k, 0, -1):
        for v in range(start, N):
            c = math.comb(N - v - 1, remaining - 1)
            if index < c:
                out.append(v)
                start = v + 1
                break
            index -= c
    return tuple(out)


_PATCHED = ("choice", "shuffle", "permutation", "rand", "random", "random_sample", "randint")
_FORBIDDEN = ("randn", "uniform", "normal", "random_integers", "ranf", "sample", "bytes", "multinomial",
              "binomial", "poisson", "exponential", "standard_normal", "beta", "gamma")


@contextlib.contextmanager
def rng_seam(chooser, perm_bound=6):
    """Replace the legacy numpy.random entry points by the seam; any other RNG entry point is a harness error.
    perm_bound: largest permutation that may be drawn (6 where every permutation is enumerated; larger only with a fixed chooser)."""
    import numpy as np
    seam = RngSeam(chooser)
    seam.perm_bound = perm_bound
    saved = {}

    def forbid(name):
        def f(*a, **k):
            raise HarnessError("RNG entry point numpy.random.%s is not modelled by the seam" % name)
        return f
    for name in _PATCHED:
        saved[name] = getattr(np.random, name)
        setattr(np.random, name, getattr(seam, name))
    for name in _FORBIDDEN:
        if hasattr(np.random, name):
            saved[name] = getattr(np.random, name)
            setattr(np.random, name, forbid(name))
    try:
        yield seam
    finally:
        for name, v in saved.items():
            setattr(np.random, name, v)


# --------------------------------------------------------------------------- virtual multiprocessing.Pool
def _data_globals(mod):
    out = {}
    for k, v in vars(mod).items():
        if k.startswith("__") or isinstance(v, (types.ModuleType, types.FunctionType, types.BuiltinFunctionType, type)):
            continue
        if callable(v) and not isinstance(v, (list, dict, set, tuple)):
            continue
        out[k] = v
    return out


def _snap(d):
    out = {}
    for k, v in d.items():
        try:
            out[k] = copy.deepcopy(v)
        except Exception:
            out[k] = v
    return out


class VirtualPool:
    """Deterministic stand-in for multiprocessing.Pool (fork start method).

    * Pool.map's chunking is reproduced (`_get_tasks`; chunksize <= 0 gives [None]*len, as MapResult does);
    * every virtual worker owns a snapshot of the data globals of the client module taken at pool creation
      (fork semantics: a worker never sees later parent writes, the parent never sees worker writes, a worker keeps
      its own writes from one chunk to the next);
    * which worker takes a chunk and which pending chunk is taken next are choice points of the explorer.
    """

    def __init__(self, chooser, module, stats=None):
        self.ch, self.mod, self.stats = chooser, module, stats if stats is not None else {}

    def __call__(self, processes=None, *a, **k):
        if a or k:
            raise HarnessError("VirtualPool: Pool(%r, %r) arguments not modelled" % (a, k))
        if processes is None:
            processes = 2
        if not isinstance(processes, int) or processes < 1:
            raise ValueError("Number of processes must be at least 1")
        return _VPool(self, processes)


class _VPool:
    def __init__(self, owner, n):
        self.o, self.n = owner, n
        base = _data_globals(owner.mod)
        self.snaps = [_snap(base) for _ in range(n)]
        self.closed = False

    def __enter__(self):
        return self

    def __exit__(self, *exc):
        self.closed = True
        return False

    def close(self):
        self.closed = True

    def join(self):
        pass

    def terminate(self):
        self.closed = True

    def _run_in_worker(self, w, func, items, star=False):
        mod = self.o.mod
        parent = _data_globals(mod)
        for k in list(parent):
            delattr(mod, k)
        for k, v in self.snaps[w].items():
            setattr(mod, k, v)
        try:
            return [func(*x) if star else func(x) for x in items]
        finally:
            self.snaps[w] = _data_globals(mod)
            for k in list(self.snaps[w]):
                delattr(mod, k)
            for k, v in parent.items():
                setattr(mod, k, v)

    def _chunks(self, iterable, chunksize):
        if not hasattr(iterable, "__len__"):
            iterable = list(iterable)
        n = len(iterable)
        if chunksize is None:
            chunksize, extra = divmod(n, self.n * 4)
            if extra:
                chunksize += 1
        if n == 0:
            chunksize = 0
        if chunksize <= 0:
            return n, None
        it = iter(iterable)
        chunks = []
        while True:
            x = tuple(itertools.islice(it, chunksize))
            if not x:
                break
            chunks.append(x)
        return n, chunks

    def _schedule(self, func, chunks, star=False):
        """returns (completion_order, results_by_chunk)"""
        if self.closed:
            raise ValueError("Pool not running")
        st = self.o.stats
        st["chunks"] = max(st.get("chunks", 0), len(chunks))
        st["workers"] = max(st.get("workers", 0), self.n)
        pending = list(range(len(chunks)))
        results = {}
        order = []
        while pending:
            c = self.o.ch.choose(len(pending), "next-chunk")
            ci = pending.pop(c)
            w = self.o.ch.choose(self.n, "worker-for-chunk")
            results[ci] = self._run_in_worker(w, func, chunks[ci], star)
            order.append(ci)
        return order, results

    def map(self, func, iterable, chunksize=None):
        n, chunks = self._chunks(iterable, chunksize)
        if chunks is None:
            return [None] * n
        order, results = self._schedule(func, chunks)
        return [r for ci in range(len(chunks)) for r in results[ci]]

    def starmap(self, func, iterable, chunksize=None):
        n, chunks = self._chunks(iterable, chunksize)
        if chunks is None:
            return [None] * n
        order, results = self._schedule(func, chunks, star=True)
        return [r for ci in range(len(chunks)) for r in results[ci]]

    def imap(self, func, iterable, chunksize=1):
        if chunksize < 1:
            raise ValueError("Chunksize must be 1+, not %r" % chunksize)
        n, chunks = self._chunks(list(iterable), chunksize)
        order, results = self._schedule(func, chunks or [])
        return iter([r for ci in range(len(chunks or [])) for r in results[ci]])

    def imap_unordered(self, func, iterable, chunksize=1):
        if chunksize < 1:
            raise ValueError("Chunksize must be 1+, not %r" % chunksize)
        n, chunks = self._chunks(list(iterable), chunksize)
        order, results = self._schedule(func, chunks or [])
        return iter([r for ci in order for r in results[ci]])

    def __getattr__(self, name):
        raise HarnessError("VirtualPool: Pool.%s is not modelled" % name)


@contextlib.contextmanager
def virtual_pool(chooser, module, attr="Pool", stats=None):
    saved = getattr(module, attr)
    setattr(module, attr, VirtualPool(chooser, module, stats))
    try:
        yield
    finally:
        setattr(module, attr, saved)


# --------------------------------------------------------------------------- thread-count seam
_RF_ORIG = {}


def single_thread_rapidfuzz():
    """rapidfuzz.process.cdist(workers=-1) starts one C++ thread per core on every call (~0.6 ms for a 3x3 matrix, and
    heavy contention with 16 explorer processes).  The explorer answers `workers=-1` with a single thread; the result is
    the same matrix by rapidfuzz's contract, and a free-running sub-space of every metric driver re-checks that on the
    unpatched function."""
    import rapidfuzz.process as P
    if "cdist" in _RF_ORIG:
        return
    orig = P.cdist
    _RF_ORIG["cdist"] = orig

    def cdist(*a, **k):
        if k.get("workers", 1) == -1:
            k["workers"] = 1
        return orig(*a, **k)
    cdist.__wrapped__ = orig
    P.cdist = cdist


@contextlib.contextmanager
def free_threads():
    import rapidfuzz.process as P
    if "cdist" not in _RF_ORIG:
        yield
        return
    patched = P.cdist
    P.cdist = _RF_ORIG["cdist"]
    try:
        yield
    finally:
        P.cdist = patched
