import argparse
import importlib
import os
import sys
import traceback


def main():
    ap = argparse.ArgumentParser()
    ap.add_argument("pid")
    ap.add_argument("--tier", default=os.environ.get("VERIF_TIER", "quick"), choices=["quick", "thorough"])
    ap.add_argument("--replay")
    a = ap.parse_args()
    seed = int(os.environ.get("VERIF_SEED", "0") or 0)
    import logging
    logging.disable(logging.CRITICAL)
    from mc import core
    try:
        driver = importlib.import_module("props." + a.pid.lower())
        if a.replay:
            rc = core.run_replay(driver, a.replay)
        else:
            rc = core.run_check(driver, a.tier, seed)
    except core.HarnessError as e:
        print("HARNESS-ERROR: %s" % e)
        rc = 2
    except Exception:
        traceback.print_exc()
        print("HARNESS-ERROR: unexpected exception in the harness")
        rc = 2
    sys.stdout.flush()
    os._exit(rc) if rc else sys.exit(0)


if __name__ == "__main__":
    main()
