"""Canonical, comparable, JSON-able rendering of results, arguments and module state (C20)."""
import math
import types


def canon(x, depth=0):
    import numpy as np
    import pandas as pd
    if depth > 12:
        return "<deep>"
    if x is None or isinstance(x, (bool, str)):
        return x
    if isinstance(x, (int, np.integer)):
        return int(x)
    if isinstance(x, (float, np.floating)):
        f = float(x)
        if f != f:
            return "nan"
        if math.isinf(f):
            return "inf" if f > 0 else "-inf"
        return f
    if isinstance(x, complex):
        return ["complex", x.real, x.imag]
    if isinstance(x, bytes):
        return ["bytes", x.hex()]
    if isinstance(x, np.ndarray):
        return ["ndarray", list(x.shape), x.dtype.kind, canon(x.tolist(), depth + 1)]
    if isinstance(x, pd.DataFrame) and getattr(x, "_verif_writes", None) is not None:
        base = pd.DataFrame(x)
        return ["GuardedFrame", canon(base, depth + 1), ["writes-by-callee"] + list(x._verif_writes)]
    if isinstance(x, pd.DataFrame):
        return ["DataFrame", [str(c) for c in x.columns], canon(list(x.index), depth + 1), [canon(x[c].tolist(), depth + 1) for c in x.columns] if x.columns.is_unique else canon(x.values.tolist(), depth + 1),
                ["names", canon(list(x.index.names), depth + 1), canon(list(x.columns.names), depth + 1)]]
    if isinstance(x, pd.Series):
        return ["Series", str(x.name), canon(list(x.index), depth + 1), canon(x.tolist(), depth + 1), ["names", canon(list(x.index.names), depth + 1)]]
    if isinstance(x, pd.Index):
        return ["Index", canon(list(x), depth + 1), canon(list(x.names), depth + 1)]
    if x is pd.NA or x is pd.NaT:
        return "NA"
    if isinstance(x, dict):
        return ["dict", sorted(([canon(k, depth + 1), canon(v, depth + 1)] for k, v in x.items()), key=repr)]
    if isinstance(x, (list, tuple)):
        if len(x) > 0 and all(hasattr(v, "collections") and hasattr(v, "lines") for v in x) and type(x).__name__ == "ndarray":
            pass
        return [type(x).__name__] + [canon(v, depth + 1) for v in x]
    if isinstance(x, (set, frozenset)):
        return ["set", sorted((canon(v, depth + 1) for v in x), key=repr)]
    if isinstance(x, range):
        return ["range", x.start, x.stop, x.step]
    if isinstance(x, BaseException):
        return ["raised", type(x).__name__]
    try:
        import scipy.sparse
        if scipy.sparse.issparse(x):
            c = x.tocoo()
            return ["sparse", list(c.shape), sorted([int(r), int(cc), canon(v)] for r, cc, v in zip(c.row.tolist(), c.col.tolist(), c.data.tolist()))]
    except Exception:
        pass
    # matplotlib / seaborn artists: data only
    mod = type(x).__module__ or ""
    name = type(x).__name__
    if mod.startswith("matplotlib"):
        if hasattr(x, "get_xdata") and hasattr(x, "get_ydata"):
            return ["Line2D", canon(np.asarray(x.get_xdata(), dtype=float), depth + 1), canon(np.asarray(x.get_ydata(), dtype=float), depth + 1)]
        if hasattr(x, "collections") and hasattr(x, "lines"):
            out = ["Axes", x.get_xlabel(), x.get_ylabel(), x.get_xscale(), x.get_yscale(), [canon(l, depth + 1) for l in x.lines]]
            for c in x.collections:
                try:
                    arr = c.get_array()
                    out.append(["collection", canon(np.asarray(c.get_offsets(), dtype=float), depth + 1), None if arr is None else canon(np.asarray(arr, dtype=float), depth + 1)])
                except Exception:
                    out.append(["collection", name])
            out.append([canon(t.get_text()) for t in x.texts])
            try:
                # filled glyphs / bars (e.g. sequence-logo letters): colour and vertical extent
                out.append(["patches"] + [[[round(float(v), 6) for v in p.get_facecolor()], round(float(p.get_extents().y0), 3), round(float(p.get_extents().y1), 3)] for p in x.patches][:200])
            except Exception:
                out.append(["patches", len(x.patches)])
            return out
        if isinstance(x, types.FunctionType):
            return ["function", x.__qualname__]
        if hasattr(x, "vmin") and hasattr(x, "vmax"):
            return [name, canon(x.vmin), canon(x.vmax)]
        if hasattr(x, "get_bad") and hasattr(x, "N"):
            # a Colormap object: its look-up-table parameters are the caller's
            return ["Colormap", getattr(x, "name", ""), int(x.N), canon([float(v) for v in x.get_bad()]), canon([float(v) for v in x.get_under()]), canon([float(v) for v in x.get_over()])]
        return ["mpl", name]
    if name in ("ClusterGrid", "ClusterGridSplit"):
        return [name, canon(np.asarray(x.data2d, dtype=float), depth + 1), canon(list(x.dendrogram_row.reordered_ind), depth + 1),
                canon(x.ax_heatmap, depth + 1), [t.get_text() for t in x.ax_cbar.get_xticklabels()] if x.ax_cbar is not None else None,
                canon([float(v) for v in x.ax_cbar.get_xticks()], depth + 1) if x.ax_cbar is not None else None]
    if isinstance(x, (types.FunctionType, types.BuiltinFunctionType, types.MethodType)):
        return ["function", getattr(x, "__qualname__", repr(x))]
    if isinstance(x, type):
        return ["class", x.__qualname__]
    if isinstance(x, types.GeneratorType):
        return ["generator"]
    if isinstance(x, types.ModuleType):
        return ["module", x.__name__]
    if hasattr(x, "__dict__") and mod.startswith("pyrepseq"):
        return [name, canon({k: v for k, v in vars(x).items()}, depth + 1)]
    return ["object", mod, name]


def module_state():
    """Canonical form of every piece of module-level state of the loaded pyrepseq modules:
    non-module, non-function, non-class globals; __defaults__/__kwdefaults__ of every function and method; non-callable class attributes."""
    import sys
    out = {}
    for mname, mod in sorted(sys.modules.items()):
        if not (mname == "pyrepseq" or mname.startswith("pyrepseq.")) or mod is None:
            continue
        for k, v in sorted(vars(mod).items()):
            if k.startswith("__"):
                continue
            if isinstance(v, types.ModuleType):
                continue
            if isinstance(v, types.FunctionType):
                if v.__module__ == mname:
                    if v.__defaults__:
                        out["%s.%s.__defaults__" % (mname, k)] = canon(v.__defaults__)
                    if v.__kwdefaults__:
                        out["%s.%s.__kwdefaults__" % (mname, k)] = canon(v.__kwdefaults__)
                continue
            if isinstance(v, type):
                if v.__module__ == mname:
                    for ak, av in sorted(vars(v).items()):
                        if ak.startswith("__") or ak == "_abc_impl":
                            continue
                        f = av.__func__ if isinstance(av, (staticmethod, classmethod)) else av
                        if isinstance(f, types.FunctionType):
                            if f.__defaults__:
                                out["%s.%s.%s.__defaults__" % (mname, k, ak)] = canon(f.__defaults__)
                            if f.__kwdefaults__:
                                out["%s.%s.%s.__kwdefaults__" % (mname, k, ak)] = canon(f.__kwdefaults__)
                        elif not callable(av) and not isinstance(av, property):
                            out["%s.%s.%s" % (mname, k, ak)] = canon(av)
                continue
            if callable(v) and getattr(v, "__module__", "").split(".")[0] != "pyrepseq":
                continue
            out["%s.%s" % (mname, k)] = canon(v)
    return out


def scribble(x, depth=0):
    """Overwrite a returned object in place (it belongs to the caller): later calls must not be affected."""
    import numpy as np
    import pandas as pd
    if depth > 3:
        return
    try:
        if isinstance(x, np.ndarray):
            if x.flags.writeable and x.size and x.dtype.kind in "iuf":
                x[...] = 7
            elif x.flags.writeable and x.size and x.dtype.kind in "OU":
                x[...] = "scribbled" if x.dtype.kind == "O" else "s"
        elif isinstance(x, pd.DataFrame):
            if len(x) and len(x.columns):
                for c in list(x.columns):
                    x[c] = -1
        elif isinstance(x, pd.Series):
            if len(x):
                x.iloc[:] = -1
        elif isinstance(x, list):
            for v in x:
                scribble(v, depth + 1)
            x.clear()
        elif isinstance(x, dict):
            x.clear()
        elif isinstance(x, set):
            x.clear()
        elif isinstance(x, tuple):
            for v in x:
                scribble(v, depth + 1)
    except Exception:
        pass


_GUARDED = []


def guarded_frame(df):
    """The caller's table as a DataFrame subclass that records every direct write to itself (column assignment / deletion /
    insertion / pop, in-place methods, relabelling) - also writes that are undone before the call returns.  Objects derived from
    it (groupby pieces, copies, selections) are plain DataFrames, so only writes to the caller's own object are recorded."""
    import pandas as pd
    if not _GUARDED:
        class GuardedFrame(pd.DataFrame):
            _metadata = ["_verif_writes"]

            @property
            def _constructor(self):
                return pd.DataFrame

            def _note(self, what):
                w = getattr(self, "_verif_writes", None)
                if w is not None:
                    w.append(what)

            def __setitem__(self, key, value):
                self._note("setitem %r" % (key,))
                return super().__setitem__(key, value)

            def __delitem__(self, key):
                self._note("delitem %r" % (key,))
                return super().__delitem__(key)

            def insert(self, *a, **k):
                self._note("insert")
                return super().insert(*a, **k)

            def pop(self, *a, **k):
                self._note("pop")
                return super().pop(*a, **k)

            def __setattr__(self, name, value):
                if name in ("columns", "index"):
                    self._note("set %s" % name)
                return super().__setattr__(name, value)

        def _inplace(name):
            def method(self, *a, **k):
                if k.get("inplace"):
                    self._note("%s(inplace=True)" % name)
                return getattr(pd.DataFrame, name)(self, *a, **k)
            method.__name__ = name
            return method
        for nm in ("drop", "rename", "fillna", "reset_index", "set_index", "sort_values", "sort_index", "drop_duplicates", "dropna", "replace"):
            setattr(GuardedFrame, nm, _inplace(nm))
        _GUARDED.append(GuardedFrame)
    g = _GUARDED[0](df)
    object.__setattr__(g, "_verif_writes", [])
    return g
