"""Shared oracle for neighbour-search results (C01, C03, C04, C07, C10, C11, C14)."""
from mc.core import Raised, raised


def diagnose(result, expected, self_mode=True):
    """Compare a triplet list with the expected set.  Returns None when it matches exactly,
    else (failure_class, detail) where failure_class is the most basic failure present."""
    if raised(result):
        return ("raised-" + result.type, repr(result))
    try:
        res = [(int(t[0]), int(t[1]), t[2]) for t in result]
    except Exception as e:  # not a triplet list at all
        return ("malformed", repr(result)[:200])
    # d may be int or float; compare numerically, exactly
    res = [(i, j, (int(d) if float(d) == int(d) else float(d)) if d == d and abs(d) != float("inf") else d) for i, j, d in res]
    rset = set(res)
    if len(rset) != len(res):
        seen, dup = set(), None
        for t in res:
            if t in seen:
                dup = t
                break
            seen.add(t)
        return ("repeated", dup)
    if len({(i, j) for i, j, _ in rset}) != len(rset):
        return ("pair-twice", sorted(rset)[:6])
    if self_mode:
        for t in rset:
            if t[0] == t[1]:
                return ("self", t)
    if rset == expected:
        return None
    epairs = {(i, j): d for i, j, d in expected}
    rpairs = {(i, j): d for i, j, d in rset}
    missing = sorted(p for p in epairs if p not in rpairs)
    if missing:
        p = missing[0]
        return ("missing", (p[0], p[1], epairs[p]))
    spurious = sorted(p for p in rpairs if p not in epairs)
    if spurious:
        p = spurious[0]
        return ("spurious", (p[0], p[1], rpairs[p]))
    for p in sorted(epairs):
        if epairs[p] != rpairs[p]:
            return ("wrong-d", (p[0], p[1], rpairs[p], "expected", epairs[p]))
    return ("differs", None)


def digest(result):
    if raised(result):
        return ("R", result.type)
    try:
        return tuple(sorted((int(a), int(b), float(c)) for a, b, c in result))
    except Exception:
        return repr(result)[:200]


SELF_ENGINES = ("nearest_neighbor", "symdel", "hash_based", "kdtree")


def run_self(acc, eng, seqs, k, **kw):
    import pyrepseq
    return acc.call(getattr(pyrepseq, eng), seqs, k, **kw)
