"""Explorer kernel: bounded exhaustive enumeration of case spaces on the real code.

A *case* is a hashable, JSON-representable tuple ``(kind, ...)``.  A driver
(``props/cNN.py``) supplies

    ID                      property id
    spaces(tier)            -> list[Space]      finite, completely enumerated case spaces
    check_case(case, acc)   executes the implementation + the reference model for one case
    REQUIRED_CLASSES        class counters that must be > 0 (vacuity guard)   [optional]
    MIN_OUTCOMES            minimal number of distinct observed outcomes      [optional]

The same ``check_case`` is used by the explorer and by ``--replay`` (a plain
function call in a fresh process, no explorer involved).
"""
import collections
import json
import math
import multiprocessing as mp
import os
import random
import sys
import time
import traceback
from concurrent.futures import ProcessPoolExecutor

VERIF = os.path.dirname(os.path.dirname(os.path.abspath(__file__)))
REPO = os.path.realpath(os.environ.get("VERIF_REPO", "/repo"))
NCPU = int(os.environ.get("VERIF_NCPU", "0")) or min(16, os.cpu_count() or 1)
OUTCOME_CAP = 200000


class HarnessError(Exception):
    """The harness itself is unsound/vacuous: exit 2, never a VIOLATION."""


class Raised:
    """An exception that escaped from the implementation (an observation, not a crash)."""

    def __init__(self, exc):
        self.type = type(exc).__name__
        self.msg = str(exc)[:300]

    def __repr__(self):
        return "Raised(%s: %s)" % (self.type, self.msg)

    def __eq__(self, other):
        return isinstance(other, Raised) and other.type == self.type

    def __hash__(self):
        return hash(("Raised", self.type))


def raised(x):
    return isinstance(x, Raised)


def jsonable(x):
    """Canonical JSON-compatible rendering of cases / observations."""
    import numpy as np
    if isinstance(x, Raised):
        return repr(x)
    if isinstance(x, (str, bool)) or x is None:
        return x
    if isinstance(x, (int, np.integer)):
        return int(x)
    if isinstance(x, (float, np.floating)):
        return float(x)
    if isinstance(x, dict):
        return {str(k): jsonable(v) for k, v in x.items()}
    if isinstance(x, (list, tuple)):
        return [jsonable(v) for v in x]
    if isinstance(x, (set, frozenset)):
        try:
            return [jsonable(v) for v in sorted(x)]
        except TypeError:
            return sorted((jsonable(v) for v in x), key=repr)
    if isinstance(x, np.ndarray):
        return jsonable(x.tolist())
    try:
        from fractions import Fraction
        if isinstance(x, Fraction):
            return "%d/%d" % (x.numerator, x.denominator)
    except Exception:
        pass
    return repr(x)[:500]


def tuplify(x):
    if isinstance(x, list):
        return tuple(tuplify(v) for v in x)
    return x


class Space:
    def __init__(self, name, gen, bounds, per_case=False, shards=None, exhaustive=True):
        self.name = name
        self.gen = gen              # zero-arg callable -> iterator of case tuples
        self.bounds = bounds        # human-readable statement of the bound that is completed
        self.per_case = per_case    # few, expensive cases: one task per case
        self.shards = shards
        self.exhaustive = exhaustive


class Acc:
    """Per-task accumulator; merged in the parent."""

    def __init__(self):
        self.cases = 0
        self.transitions = 0
        self.validated = 0
        self.nontrivial = 0
        self.nstates = 0
        self.classes = collections.Counter()
        self.outcomes = set()
        self.outcomes_capped = False
        self.fails = {}            # key -> (order, record)
        self.nfail = collections.Counter()
        self.samples = {}          # space name -> {"first": (idx, case), "last": (idx, case)}
        self.per_space = collections.Counter()
        self.caps = []
        self.order = (0, 0)
        self.extra = collections.Counter()   # free-form numeric counters (e.g. pairs decided)

    # -- used by drivers -------------------------------------------------
    def call(self, fn, *a, **k):
        """Execute one transition of the implementation; exceptions become observations."""
        self.transitions += 1
        try:
            return fn(*a, **k)
        except HarnessError:
            raise
        except Exception as e:  # noqa
            return Raised(e)

    def ok(self, outcome=None, nontrivial=False):
        self.validated += 1
        if nontrivial:
            self.nontrivial += 1
        if outcome is not None:
            if len(self.outcomes) < OUTCOME_CAP:
                try:
                    self.outcomes.add(hash(outcome))
                except TypeError:
                    self.outcomes.add(hash(repr(outcome)))
            else:
                self.outcomes_capped = True

    def fail(self, key, case, expected, observed, note=""):
        self.validated += 1
        self.nfail[key] += 1
        cur = self.fails.get(key)
        if cur is None or self.order < cur[0]:
            self.fails[key] = (self.order, {
                "key": key, "case": jsonable(case), "expected": jsonable(expected),
                "observed": jsonable(observed), "note": note})

    def cls(self, name, n=1):
        self.classes[name] += n

    # -- merging ---------------------------------------------------------
    def merge(self, o):
        self.cases += o.cases
        self.transitions += o.transitions
        self.validated += o.validated
        self.nontrivial += o.nontrivial
        self.nstates += o.nstates
        self.classes.update(o.classes)
        self.extra.update(o.extra)
        self.per_space.update(o.per_space)
        if len(self.outcomes) < 4 * OUTCOME_CAP:
            self.outcomes |= o.outcomes
        self.outcomes_capped |= o.outcomes_capped
        self.nfail.update(o.nfail)
        self.caps += o.caps
        for k, v in o.fails.items():
            if k not in self.fails or v[0] < self.fails[k][0]:
                self.fails[k] = v
        for sp, d in o.samples.items():
            m = self.samples.setdefault(sp, {})
            if "first" in d and ("first" not in m or d["first"][0] < m["first"][0]):
                m["first"] = d["first"]
            if "last" in d and ("last" not in m or d["last"][0] > m["last"][0]):
                m["last"] = d["last"]
            if "mid" in d and "mid" not in m:
                m["mid"] = d["mid"]


_G = {}


def _run_task(task):
    driver, spaces, seed = _G["driver"], _G["spaces"], _G["seed"]
    si, mode, a, b = task
    sp = spaces[si]
    acc = Acc()
    random.seed(seed * 7919 + si)
    try:
        import numpy as np
        np.random.seed((seed * 7919 + si) % (2 ** 32))
    except Exception:
        pass
    t0 = time.time()
    if mode == "one":
        ci, case = a, b
        acc.order = (si, ci)
        acc.cases += 1
        acc.nstates += 1
        acc.per_space[sp.name] += 1
        acc.samples[sp.name] = {"first": (ci, case), "last": (ci, case)}
        driver.check_case(case, acc)
    else:
        s, S = a, b
        seen = set()
        smp = {}
        for ci, case in enumerate(sp.gen()):
            h = hash(case)
            if (h + seed) % S != s:
                continue
            if h in seen:
                # same digest: only skip if it really is a repeated case (cheap exact test impossible
                # without storing cases; collisions at 64 bit are ignored, repeated cases are re-run)
                pass
            else:
                seen.add(h)
                acc.nstates += 1
            acc.order = (si, ci)
            acc.cases += 1
            if "first" not in smp:
                smp["first"] = (ci, case)
            smp["last"] = (ci, case)
            if s == S // 2 and "mid" not in smp and acc.cases > 1:
                smp["mid"] = (ci, case)
            driver.check_case(case, acc)
        acc.per_space[sp.name] += acc.cases
        if smp:
            acc.samples[sp.name] = smp
    acc.extra["cpu_s_x1000"] += int((time.time() - t0) * 1000)
    return acc


def explore(driver, tier, seed):
    driver.TIER = tier
    spaces = driver.spaces(tier)
    _G.update(driver=driver, spaces=spaces, seed=seed)
    tasks = []
    for si, sp in enumerate(spaces):
        if sp.per_case:
            seen = set()
            for ci, c in enumerate(sp.gen()):
                if c in seen:
                    continue
                seen.add(c)
                tasks.append((si, "one", ci, c))
        else:
            S = sp.shards or NCPU * 2
            for s in range(S):
                tasks.append((si, "shard", s, S))
    total = Acc()
    if NCPU == 1 or os.environ.get("VERIF_SERIAL"):
        for t in tasks:
            total.merge(_run_task(t))
    else:
        ctx = mp.get_context("fork")
        with ProcessPoolExecutor(max_workers=NCPU, mp_context=ctx) as ex:
            for r in ex.map(_run_task, tasks):
                total.merge(r)
    return spaces, total


# ---------------------------------------------------------------------------
# known findings

def load_known(pid):
    path = os.path.join(VERIF, "known_findings.txt")
    known = {}
    if os.path.exists(path):
        for line in open(path):
            line = line.strip()
            if not line.startswith("finding:"):
                continue
            fields = line[len("finding:"):].strip().split(None, 2)
            kv = dict(f.split("=", 1) for f in fields[:2] if "=" in f)
            if kv.get("property") == pid and "key" in kv:
                known[kv["key"]] = fields[2] if len(fields) > 2 else ""
    return known


# ---------------------------------------------------------------------------

def assert_bound_tree():
    import pyrepseq
    f = os.path.realpath(pyrepseq.__file__)
    if not f.startswith(REPO + os.sep):
        raise HarnessError("pyrepseq imported from %s, not from VERIF_REPO=%s" % (f, REPO))
    return f


def write_evidence(driver, tier, seed, spaces, acc, wall, nviol, replay=False):
    samples = []
    for sp in spaces:
        d = acc.samples.get(sp.name, {})
        for tag in ("first", "mid", "last"):
            if tag in d:
                samples.append({"space": sp.name, "which": tag, "index": d[tag][0], "case": jsonable(d[tag][1])})
    cov = {
        "states": acc.nstates,
        "transitions": acc.transitions,
        "traces_validated_against_impl": acc.validated,
        "samples": samples,
        "evaluations": acc.cases,
        "distinct_nontrivial": acc.nontrivial,
        "rule": getattr(driver, "RULE", ""),
        "exhaustive": all(sp.exhaustive for sp in spaces) and not acc.caps,
        "spaces": [{"name": sp.name, "cases": acc.per_space.get(sp.name, 0), "bounds": sp.bounds,
                    "exhaustive": sp.exhaustive} for sp in spaces],
        "classes": dict(sorted(acc.classes.items())),
        "counters": {k: v for k, v in sorted(acc.extra.items()) if k != "cpu_s_x1000"},
        "distinct_outcomes": len(acc.outcomes),
        "distinct_outcomes_capped": acc.outcomes_capped,
        "caps_hit": acc.caps,
        "violations_by_key": dict(acc.nfail),
        "cpu_s": acc.extra.get("cpu_s_x1000", 0) / 1000.0,
        "workers": NCPU,
        "repo": REPO,
    }
    ev = {
        "property_id": driver.ID, "tier": tier, "seed": seed, "level": "model_checking",
        "coverage": cov, "assumptions": list(getattr(driver, "ASSUMPTIONS", [])),
        "wall_s": round(wall, 2), "violations": nviol,
    }
    evdir = os.environ.get("VERIF_EVIDENCE_DIR") or os.path.join(VERIF, "evidence")
    os.makedirs(evdir, exist_ok=True)
    path = os.path.join(evdir, driver.ID + ".json")
    tmp = path + ".tmp%d" % os.getpid()
    with open(tmp, "w") as f:
        json.dump(ev, f, indent=1, sort_keys=False)
        f.write("\n")
    os.replace(tmp, path)
    return path


def run_check(driver, tier, seed):
    t0 = time.time()
    assert_bound_tree()
    if getattr(driver, "SINGLE_THREAD_RAPIDFUZZ", False):
        from mc.seams import single_thread_rapidfuzz
        single_thread_rapidfuzz()
    if hasattr(driver, "selfcheck"):
        driver.selfcheck(tier)
    spaces, acc = explore(driver, tier, seed)
    known = load_known(driver.ID)
    unknown = []
    lines = []
    for key, (order, rec) in sorted(acc.fails.items(), key=lambda kv: kv[1][0]):
        if key in known:
            lines.append("KNOWN-FINDING: property=%s %s [key=%s, %d cases]" % (driver.ID, known[key], key, acc.nfail[key]))
            continue
        rdir = os.path.join(os.environ.get("VERIF_REPLAY_DIR") or os.path.join(VERIF, "replays"), driver.ID)
        os.makedirs(rdir, exist_ok=True)
        fn = os.path.join(rdir, "".join(ch if ch.isalnum() or ch in "-_." else "_" for ch in key)[:120] + ".json")
        rec = dict(rec)
        rec.update(property=driver.ID, tier=tier, count=acc.nfail[key])
        with open(fn, "w") as f:
            json.dump(rec, f, indent=1)
        unknown.append((key, fn, rec))
    wall = time.time() - t0
    # vacuity guards (harness soundness): only meaningful when the run was not cut short by violations
    problems = []
    for c in getattr(driver, "REQUIRED_CLASSES", {}).get(tier, getattr(driver, "REQUIRED_CLASSES", {}).get("all", [])):
        if acc.classes.get(c, 0) == 0:
            problems.append("class counter %r is zero" % c)
    mo = getattr(driver, "MIN_OUTCOMES", 2)
    if len(acc.outcomes) < mo and not acc.fails:
        problems.append("only %d distinct outcomes (< %d)" % (len(acc.outcomes), mo))
    if acc.cases == 0 or acc.transitions == 0:
        problems.append("nothing explored")
    write_evidence(driver, tier, seed, spaces, acc, wall, len(unknown))
    print("%s tier=%s seed=%d: spaces=%d cases=%d states=%d transitions=%d validated=%d nontrivial=%d outcomes=%d wall=%.1fs" % (
        driver.ID, tier, seed, len(spaces), acc.cases, acc.nstates, acc.transitions, acc.validated,
        acc.nontrivial, len(acc.outcomes), wall))
    for sp in spaces:
        print("  space %-28s cases=%-9d %s" % (sp.name, acc.per_space.get(sp.name, 0), sp.bounds))
    if acc.classes:
        print("  classes: " + ", ".join("%s=%d" % kv for kv in sorted(acc.classes.items())))
    for l in lines:
        print(l)
    for key, fn, rec in unknown:
        print("  violation key=%s count=%d note=%s" % (key, rec["count"], rec.get("note", "")))
        print("    case=%s" % json.dumps(rec["case"])[:400])
        print("    expected=%s" % json.dumps(rec["expected"])[:300])
        print("    observed=%s" % json.dumps(rec["observed"])[:300])
        print("VIOLATION property=%s replay=%s" % (driver.ID, fn))
    if problems and not unknown:
        print("HARNESS-ERROR: " + "; ".join(problems))
        return 2
    return 1 if unknown else 0


def run_replay(driver, path):
    assert_bound_tree()
    if getattr(driver, "SINGLE_THREAD_RAPIDFUZZ", False):
        from mc.seams import single_thread_rapidfuzz
        single_thread_rapidfuzz()
    rec = json.load(open(path))
    case = tuplify(rec["case"])
    acc = Acc()
    driver.check_case(case, acc)
    if acc.fails:
        for key, (order, r) in acc.fails.items():
            print("reproduced key=%s" % key)
            print("  case=%s" % json.dumps(r["case"])[:600])
            print("  expected=%s" % json.dumps(r["expected"])[:600])
            print("  observed=%s" % json.dumps(r["observed"])[:600])
        print("VIOLATION property=%s replay=%s" % (driver.ID, path))
        return 1
    print("not reproduced: case holds on this tree (%d comparisons)" % acc.validated)
    return 0
