"""Bounded spaces, simplest first (length, then lexicographic)."""
import itertools


def universe(alphabet, L, minlen=0):
    """All strings of length minlen..L over alphabet, length-then-lexicographic."""
    out = []
    for n in range(minlen, L + 1):
        for t in itertools.product(alphabet, repeat=n):
            out.append("".join(t))
    return out


def lists(U, m, minlen=1):
    """All ordered lists with repetition of length minlen..m over U (generator of tuples)."""
    for n in range(minlen, m + 1):
        yield from itertools.product(U, repeat=n)


def compositions(N, K):
    """All K-tuples of non-negative integers summing to N."""
    if K == 1:
        yield (N,)
        return
    for first in range(N + 1):
        for rest in compositions(N - first, K - 1):
            yield (first,) + rest


def set_partitions_rgs(n):
    """Restricted growth strings of length n (one per set partition)."""
    def rec(prefix, mx):
        if len(prefix) == n:
            yield tuple(prefix)
            return
        for v in range(mx + 2):
            yield from rec(prefix + [v], max(mx, v))
    if n == 0:
        yield ()
    else:
        yield from rec([0], 0)


def subsets(items, minsize=0, maxsize=None):
    items = list(items)
    if maxsize is None:
        maxsize = len(items)
    for r in range(minsize, maxsize + 1):
        yield from itertools.combinations(items, r)


def permutations_of_multiset(items):
    seen = set()
    for p in itertools.permutations(items):
        if p not in seen:
            seen.add(p)
            yield p
