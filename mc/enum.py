"""Bounded spaces, simplest first (length, then lexicographic)."""
import itertools


def universe(alphabet, L, minlen=0):
    """All strings of length minlen..L over alphabet, length-then-lexicographic."""
    out = []
    for n in range(minlen, L + 1):
        for t in itertools.product(alphabet, repeat=n):
            out.append("".join(t))
    return out


def lists(U, m, minlen=1):
    """All ordered lists with repetition of length minlen..m over U (generator of tuples)."""
    for n in range(minlen, m + 1):
        yield from itertools.product(U, repeat=n)


def compositions(N, K):
    """All K-tuples of non-negative integers summing to N."""
    if K == 1:
        yield (N,)
        return
    for first in range(N + 1):
        for rest in compositions(N - first, K - 1):
            yield (first,) + rest


def set_partitions_rgs(n):
    """Restricted growth strings of length n (one per set partition)."""
    def rec(prefix, mx):
        if len(prefix) == n:
            yield tuple(prefix)
            return
        for v in range(mx + 2):
            yield from rec(prefix + [v], max(mx, v))
    if n == 0:
        yield ()
    else:
        yield from rec([0], 0)


def subsets(items, minsize=0, maxsize=None):
    items = list(items)
    if maxsize is None:
        maxsize = len(items)
    for r in range(minsize, maxsize + 1):
        yield from itertools.combinations(items, r)


def permutations_of_multiset(items):
    seen = set()
    for p in itertools.permutations(items):
        if p not in seen:
            seen.add(p)
            yield p


# ---------------------------------------------------------------- size-boundary family
_DIG = "ACDEFGHIKL"


def filler(i, width=5):
    """deterministic filler string for position i: every decimal digit is written twice, so two fillers differ in >= 2 places
    (never within one edit of each other) and a filler (10 letters over ACDEFGHIKL) is >= 3 edits from any family member"""
    return "".join(_DIG[int(d)] * 2 for d in str(i).zfill(width))


def size_family(N, marks=(256, 1024, 65536), halo=3):
    """N strings; the positions next to 0, N-1 and every power-of-two mark below N hold a clonal family (13-mers, all within 2
    substitutions of each other), all other positions hold mutually distant fillers.  Returns (strings, family positions)."""
    seed = "WYWYWMMWYWYWY"
    pos = set(range(0, halo + 1)) | set(range(max(0, N - halo - 1), N))
    for m in marks:
        pos |= {p for p in range(m - halo, m + halo + 1) if 0 <= p < N}
    pos = sorted(pos)
    fam = []
    letters = "ACDEFGHIKLMNPQRSTV"
    for n, p in enumerate(pos):
        site = 5 + (n // len(letters)) % 3
        fam.append(seed[:site] + letters[n % len(letters)] + seed[site + 1:])
    out = [filler(i) for i in range(N)]
    for p, s in zip(pos, fam):
        out[p] = s
    return out, pos


def composition_family(word, copies=0, extra=()):
    """Every distinct anagram of word (one amino-acid composition, i.e. one point of a composition histogram), optionally with
    `copies` further copies of word itself (a clone next to its transposed variants) and some strings of other lengths."""
    import itertools
    perms = sorted({"".join(t) for t in itertools.permutations(word)})
    return perms + [word] * copies + list(extra)


RADIUS_SEEDS = ("FAGHSLGQGNTEAF", "CASSLGQGNTEAFF", "AAAAAAAAAAAAAA", "CASSLGQGNTEAFFGQGTRLTV", "ACACACACACACAC")


def radius_family(seed, k):
    """Strings exactly / at most k edits from a long seed, built so that each can only be reached by particular deletions (the first
    residues, the last residues, the first residue plus a block elsewhere, a block in the middle), by k spread substitutions, or by
    indel mixtures; plus strings shorter than k (incl. duplicates) and one far string.  Order: seed first."""
    L = len(seed)
    out = [seed]
    for off in sorted({0, 1, 2, L // 2, L - k - 1, L - k}):
        if 0 <= off <= L - k:
            out.append(seed[:off] + seed[off + k:])                    # block of k deleted
    if k >= 2:
        for off in sorted({2, L // 2, L - k + 1}):
            if 1 <= off <= L - (k - 1):
                out.append(seed[1:off] + seed[off + k - 1:])           # first residue and a block of k-1
        out.append(seed[:-1][:L // 2] + seed[:-1][L // 2 + k - 1:])      # last residue and a block of k-1
    other = "W" if "W" not in seed else "Y"
    pos = [(i * (L - 1)) // max(1, k - 1) for i in range(k)] if k > 1 else [L // 2]
    sub = list(seed)
    for p_ in pos:
        sub[p_] = other
    out.append("".join(sub))                                             # k substitutions spread over the string
    out.append(other * k + seed)                                         # k insertions in front
    out.append(seed + other * (k + 1))                                   # k+1 insertions (too far)
    if k >= 2:
        out.append(other + seed[:L // 2] + seed[L // 2 + k - 1:])       # one insertion, k-1 deletions
    short = ["", seed[:1], seed[:2], seed[:1] + other, seed[:2], seed[:k - 1], seed[:k]]
    out += short
    out.append(other * L)
    out.append(seed)                                                     # a second copy of the seed
    return out
